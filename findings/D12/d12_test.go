package fracmanager

// Reproduction of finding D12 (C19): an asynchronous search records the names of the fractions that exist when it is
// started; when it runs (or resumes after a restart) a recorded fraction may be gone (retention). doSearch then looks
// the name up in a map, gets a nil fraction and calls a method on it.

import (
	"testing"

	"github.com/ozontech/seq-db/seq"
)

type d12Mapping struct{}

func (d12Mapping) GetMapping() seq.Mapping { return nil }

func TestFindingD12(t *testing.T) {
	dir := t.TempDir()
	fm, err := newFracManagerWithBackgroundStart(&Config{FracSize: 1 << 30, TotalSize: 1 << 40, DataDir: dir})
	if err != nil {
		t.Fatal(err)
	}
	defer fm.Stop()
	as := MustStartAsync(AsyncSearcherConfig{DataDir: t.TempDir(), Parallelism: 1}, d12Mapping{}, fm)
	// a request persisted earlier that lists a fraction which retention has removed since
	as.requests["req-1"] = asyncSearchInfo{
		Request:   AsyncSearchRequest{ID: "req-1", Query: "service:x"},
		Fractions: []fracSearchState{{Name: "seq-db-01GONE"}},
	}
	defer func() {
		if r := recover(); r != nil {
			t.Fatalf("REPRODUCED: doSearch panicked on a fraction that no longer exists: %v", r)
		}
	}()
	err = as.doSearch("req-1")
	t.Logf("NOT REPRODUCED: doSearch returned %v", err)
}
