package fracmanager

// Reproduction of finding D9 (C01): a torn meta tail (complete header, truncated payload) is skipped by Active.Replay,
// but the writer keeps appending after it (its offset is the file size). After the next ingestion and restart the
// replay reads the torn block with the following bytes as its payload and the index worker panics
// ("error decompressing meta"): the store does not come back up.

import (
	"context"
	"os"
	"path/filepath"
	"testing"

	"github.com/ozontech/seq-db/frac"
	"github.com/ozontech/seq-db/seq"
)

func d9Append(t *testing.T, fm *FracManager, id uint64, doc string) {
	dp := frac.NewDocProvider()
	dp.Append([]byte(doc), nil, seq.SimpleID(int(id)), seq.Tokens("service:d9", "_all_:"))
	docs, metas := dp.Provide()
	if err := fm.Append(context.Background(), docs, metas); err != nil {
		t.Fatal(err)
	}
	fm.WaitIdle()
}

func TestFindingD9(t *testing.T) {
	dir := t.TempDir()
	cfg := func() *Config { return &Config{FracSize: 1 << 30, TotalSize: 1 << 40, ShouldReplay: true, DataDir: dir} }
	fm, err := newFracManagerWithBackgroundStart(cfg())
	if err != nil {
		t.Fatal(err)
	}
	d9Append(t, fm, 1, `{"service":"d9","n":1}`)
	d9Append(t, fm, 2, `{"service":"d9","n":2}`)
	fm.Stop()

	// crash in the middle of the second meta write: drop the last 3 bytes of the .meta file
	metas, _ := filepath.Glob(filepath.Join(dir, "*.meta"))
	if len(metas) != 1 {
		t.Fatalf("meta files: %v", metas)
	}
	st, _ := os.Stat(metas[0])
	if err := os.Truncate(metas[0], st.Size()-3); err != nil {
		t.Fatal(err)
	}

	// restart 1: the torn block is skipped; ingest another bulk
	fm, err = newFracManagerWithBackgroundStart(cfg())
	if err != nil {
		t.Fatal(err)
	}
	d9Append(t, fm, 3, `{"service":"d9","n":3}`)
	fm.Stop()

	// restart 2: must come up (it panics in the index worker on the unfixed code)
	fm, err = newFracManagerWithBackgroundStart(cfg())
	if err != nil {
		t.Fatal(err)
	}
	fm.WaitIdle()
	fm.Stop()
	t.Log("NOT REPRODUCED: the store came back up after a torn meta tail")
}
