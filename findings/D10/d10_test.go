package fracmanager

// Reproduction of finding D10 (C15): a data directory that holds only "<fraction>.docs" - the state a crash leaves
// between the two file creations of frac.NewActive, or between the two removals of Active.Suicide - makes the store
// refuse to start (logger.Fatal in loader.filterInfos).

import (
	"os"
	"path/filepath"
	"testing"
)

func TestFindingD10(t *testing.T) {
	dir := t.TempDir()
	if err := os.WriteFile(filepath.Join(dir, fileBasePattern+"01JD10.docs"), nil, 0o644); err != nil {
		t.Fatal(err)
	}
	l := NewLoader(&Config{DataDir: dir}, nil, nil)
	ids, infos := l.makeInfos(l.getFileList())
	t.Logf("file set: %v", ids)
	l.filterInfos(ids, infos) // logger.Fatal -> the process exits here
	t.Log("NOT REPRODUCED: the loader accepted a docs-only fraction")
}
