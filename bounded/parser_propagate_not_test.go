package parser

// Bounded stand-in (NOT a proof): propagateNot preserves the boolean meaning of every AST over three atoms up to a
// stated depth, and leaves no NOT node behind. Injected by vcgo with `go test -overlay`.

import (
	"fmt"
	"os"
	"strings"
	"testing"
)

type vcgoTree struct {
	op   int // -1 atom
	atom int
	kids []*vcgoTree
}

func (v *vcgoTree) build() *ASTNode {
	if v.op < 0 {
		return newTokenNode(&Literal{Field: fmt.Sprintf("f%d", v.atom), Terms: []Term{{Kind: TermText, Data: "x"}}})
	}
	if logicalKind(v.op) == LogicalNot {
		return newNotNode(v.kids[0].build())
	}
	return newLogicalNode(logicalKind(v.op), v.kids[0].build(), v.kids[1].build())
}

func (v *vcgoTree) eval(val []bool) bool {
	if v.op < 0 {
		return val[v.atom]
	}
	switch logicalKind(v.op) {
	case LogicalNot:
		return !v.kids[0].eval(val)
	case LogicalAnd:
		return v.kids[0].eval(val) && v.kids[1].eval(val)
	case LogicalOr:
		return v.kids[0].eval(val) || v.kids[1].eval(val)
	}
	panic("op")
}

func (v *vcgoTree) String() string {
	if v.op < 0 {
		return fmt.Sprintf("f%d", v.atom)
	}
	switch logicalKind(v.op) {
	case LogicalNot:
		return "NOT(" + v.kids[0].String() + ")"
	case LogicalAnd:
		return "(" + v.kids[0].String() + " AND " + v.kids[1].String() + ")"
	}
	return "(" + v.kids[0].String() + " OR " + v.kids[1].String() + ")"
}

func vcgoEvalAST(n *ASTNode, val []bool) (bool, error) {
	switch t := n.Value.(type) {
	case *Literal:
		var i int
		fmt.Sscanf(t.Field, "f%d", &i)
		return val[i], nil
	case *Logical:
		switch t.Operator {
		case LogicalNot:
			return false, fmt.Errorf("NOT node left in the tree")
		case LogicalAnd, LogicalOr, LogicalNAnd:
			a, err := vcgoEvalAST(n.Children[0], val)
			if err != nil {
				return false, err
			}
			b, err := vcgoEvalAST(n.Children[1], val)
			if err != nil {
				return false, err
			}
			switch t.Operator {
			case LogicalAnd:
				return a && b, nil
			case LogicalOr:
				return a || b, nil
			default: // NAND: child 0 is the negated side
				return !a && b, nil
			}
		}
	}
	return false, fmt.Errorf("unexpected node")
}

func vcgoTrees(depth int, atoms int) []*vcgoTree {
	var out []*vcgoTree
	for a := 0; a < atoms; a++ {
		out = append(out, &vcgoTree{op: -1, atom: a})
	}
	if depth == 0 {
		return out
	}
	sub := vcgoTrees(depth-1, atoms)
	for _, s := range sub {
		out = append(out, &vcgoTree{op: int(LogicalNot), kids: []*vcgoTree{s}})
	}
	for _, op := range []logicalKind{LogicalAnd, LogicalOr} {
		for _, l := range sub {
			for _, r := range sub {
				out = append(out, &vcgoTree{op: int(op), kids: []*vcgoTree{l, r}})
			}
		}
	}
	return out
}

func TestVcgoBoundedPropagateNot(t *testing.T) {
	depth, atoms := 2, 2
	if os.Getenv("VCGO_TIER") == "thorough" {
		depth, atoms = 3, 2
	}
	trees := vcgoTrees(depth, atoms)
	cases := 0
	for _, tr := range trees {
		if cases > 400000 {
			break
		}
		for mask := 0; mask < 1<<atoms; mask++ {
			val := make([]bool, atoms)
			for a := range val {
				val[a] = mask>>a&1 == 1
			}
			cases++
			res, not := propagateNot(tr.build())
			got, err := vcgoEvalAST(res, val)
			if err == nil && not {
				got = !got
			}
			if err != nil || got != tr.eval(val) {
				var sb strings.Builder
				res.Dump(&sb)
				fmt.Printf("BOUNDED-FAIL propagateNot(%s) = (%s, not=%v): meaning differs for valuation %v (err=%v)\n", tr, sb.String(), not, val, err)
				fmt.Printf("BOUNDED-CASES %d\n", cases)
				t.FailNow()
			}
		}
	}
	fmt.Printf("BOUNDED-CASES %d\n", cases)
}
