package pattern

// Bounded stand-in (NOT a proof): findSubstring / calcPrefFunc / findSequence / wildcardSearch.check against naive
// definitions, exhaustively up to a stated bound. Injected by vcgo with `go test -overlay`.

import (
	"bytes"
	"fmt"
	"os"
	"testing"
)

func vcgoAllStrings(alpha []byte, maxLen int, f func([]byte)) {
	var rec func(cur []byte)
	rec = func(cur []byte) {
		f(cur)
		if len(cur) == maxLen {
			return
		}
		for _, c := range alpha {
			rec(append(append([]byte{}, cur...), c))
		}
	}
	rec(nil)
}

func TestVcgoBoundedSubstring(t *testing.T) {
	alpha, maxPat, maxText := []byte("ab"), 5, 9
	if os.Getenv("VCGO_TIER") == "thorough" {
		alpha, maxPat, maxText = []byte("abc"), 6, 10
	}
	cases := 0
	var pats [][]byte
	vcgoAllStrings(alpha, maxPat, func(p []byte) {
		if len(p) > 0 {
			pats = append(pats, append([]byte{}, p...))
		}
	})
	for _, p := range pats {
		sub := newSubstringPattern(p)
		failed := false
		vcgoAllStrings(alpha, maxText, func(s []byte) {
			if failed {
				return
			}
			cases++
			want := -1
			if i := bytes.Index(s, p); i >= 0 {
				want = i + len(p)
			}
			if got := findSubstring(s, sub); got != want {
				fmt.Printf("BOUNDED-FAIL findSubstring(%q, %q) = %d, first occurrence ends at %d\n", s, p, got, want)
				failed = true
			}
		})
		if failed {
			fmt.Printf("BOUNDED-CASES %d\n", cases)
			t.FailNow()
		}
	}
	// the glob definition ("there is a split") against the leftmost-greedy matcher, for two middle fragments
	for _, p1 := range pats {
		if len(p1) > 2 {
			continue
		}
		for _, p2 := range pats {
			if len(p2) > 2 {
				continue
			}
			seq := []*substring{newSubstringPattern(p1), newSubstringPattern(p2)}
			vcgoAllStrings(alpha, 7, func(s []byte) {
				cases++
				// existential definition: s = x p1 y p2 z
				exists := false
				for i := 0; i+len(p1) <= len(s) && !exists; i++ {
					if bytes.Equal(s[i:i+len(p1)], p1) && bytes.Contains(s[i+len(p1):], p2) {
						exists = true
					}
				}
				if got := findSequence(s, seq) == 2; got != exists {
					fmt.Printf("BOUNDED-FAIL findSequence(%q, [%q %q]) matched=%v, glob definition says %v\n", s, p1, p2, got, exists)
					t.Fail()
				}
			})
		}
	}
	fmt.Printf("BOUNDED-CASES %d\n", cases)
}
