# sourced by every script in /verif: offline Go 1.24.0 toolchain first on PATH
export PATH=/root/go/pkg/mod/golang.org/toolchain@v0.0.1-go1.24.0.linux-amd64/bin:$PATH
export GOTOOLCHAIN=local GOFLAGS=-mod=mod GOPROXY=off GOSUMDB=off GONOSUMDB='*' GONOSUMCHECK=1 GOFLAGS=-mod=mod
export CGO_ENABLED=0
