#!/bin/bash
# usage: scripts/sweep_scan.sh <pkg pattern e.g. ./frac> [jobs]  - tries the zero-annotation safety sweep on every function of the
# package that has no contract of its own; prints the keys of those whose obligations all discharge (candidates for
# "sweep_functions" in props/*.json). Exploratory tool, not part of any check.
cd /verif
PKG="$1"; J="${2:-4}"
short=${PKG#./}
bin/vcgo dump -pkg "$PKG" -func '' 2>/dev/null | grep '^== ' | sed 's/^== //' | grep "^$short::" | grep -v '\$' | grep -v '\[' > /tmp/sweep-$$-all
# drop functions that have contracts
grep -h '^//@ func ' /repo/$short/zz_verif_contracts.go 2>/dev/null | sed 's|^//@ func ||' | sed "s|^|$short::|" > /tmp/sweep-$$-have
grep -v -x -F -f /tmp/sweep-$$-have /tmp/sweep-$$-all > /tmp/sweep-$$-todo
run() {
  k="$1"
  out=$(timeout 120 bin/vcgo verify -sweep -secs 4 -pkg "$2" -func "$k" 2>&1)
  line=$(echo "$out" | grep 'queries ok' | tail -1)
  n=$(echo "$line" | sed -n 's/.*: \([0-9]*\)\/\([0-9]*\) queries ok.*/\1 \2/p')
  set -- $n
  if [ -n "${1:-}" ] && [ "$1" = "$2" ] && [ "$2" -ge 3 ] && ! echo "$out" | grep -q 'UNDECIDED\|ERROR'; then echo "PASS $k $2"; else echo "fail $k ${1:-?}/${2:-?}"; fi
}
export -f run
xargs -a /tmp/sweep-$$-todo -P "$J" -I{} bash -c 'run "$@"' _ {} "$PKG"
rm -f /tmp/sweep-$$-*
