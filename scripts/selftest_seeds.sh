#!/bin/bash
# Must-fail corpus: every seeded change under /verif/seeded must make its property's quick check report a violation.
# usage: scripts/selftest_seeds.sh [jobs]   (writes /verif/seeded/SELFTEST.txt)
cd /verif
J="${1:-4}"
OUT=/verif/seeded/SELFTEST.txt
TMP=$(mktemp -d /tmp/selftest-XXXXXX)
trap 'rm -rf "$TMP"' EXIT
# work on a snapshot of /repo and of the checker, so that edits made while the corpus runs do not leak into it
rsync -a --exclude .git /repo/ "$TMP/repo/"
cp bin/vcgo "$TMP/vcgo"
export SEED_SRC="$TMP/repo" VCGO_BIN="$TMP/vcgo"
# order: by round (suffix letter), then property - an interrupted run has covered whole rounds
ls seeded | grep -E '^C[0-9]+-[a-z]$' | awk -F- '{print $2, $0}' | sort | awk '{print $2}' > "$TMP/list"
[ -n "${SELFTEST_ONLY:-}" ] && grep -E "$SELFTEST_ONLY" "$TMP/list" > "$TMP/list2" && mv "$TMP/list2" "$TMP/list"
: > "$OUT.partial"
run_one() {
  s="$1"; prop="${s%%-*}"
  :
  r=$(scripts/seed_check.sh "$s" "$prop" 2>&1 | tail -1)
  echo "$s $r"
  echo "$s $r" >> /verif/seeded/SELFTEST.txt.partial
}
export -f run_one
xargs -a "$TMP/list" -P "$J" -I{} bash -c 'run_one {}' > "$TMP/res"
sort "$TMP/res" > "$OUT"
rm -f "$OUT.partial"
echo "caught: $(grep -c 'check_exit=1' "$OUT") of $(wc -l < "$OUT")"
grep -v 'check_exit=1' "$OUT"
