#!/bin/bash
# usage: scripts/seed_check.sh <seed dir name> [property]  - re-runs a property's check against a scratch copy of the
# current /repo working tree (or of $SEED_SRC, a snapshot of it) with the seeded patch applied (copy removed afterwards)
set -u
ID="$1"; PROP="${2:-${ID%%-*}}"
. /verif/env.sh
D=$(mktemp -d /tmp/sk-XXXXXX)
trap 'rm -rf "$D"' EXIT
rsync -a --exclude .git "${SEED_SRC:-/repo}/" "$D/repo/"
( cd "$D/repo" && patch -p1 -s < /verif/seeded/$ID/patch.diff ) || { echo "PATCH FAILED"; exit 3; }
cd /verif
VERIF_REPO="$D/repo" timeout 2700 "${VCGO_BIN:-bin/vcgo}" check -p "$PROP" > "$D/out.log" 2>&1; RC=$?
grep -h "VIOLATION\|UNDECIDED\|KNOWN" "$D/out.log" | head -6
tail -1 "$D/out.log"
echo "seed=$ID prop=$PROP check_exit=$RC"
