#!/bin/bash
# usage: scripts/seed_setup.sh <PROPID> <suffix>   -> creates /tmp/seed-<PROPID><suffix> worktree (contract files removed) and /tmp/seed-<PROPID><suffix>-out/property.txt
set -eu
P="$1"; S="${2:-}"
WT=/tmp/seed-$P$S; OUT=$WT-out
rm -rf "$OUT"; mkdir -p "$OUT"
git -C /repo worktree add -q --detach "$WT" HEAD
find "$WT" -name zz_verif_contracts.go -delete
python3 - "$P" > "$OUT/property.txt" <<'PY'
import json,sys
for l in open('/verif/properties.jsonl'):
    o=json.loads(l)
    if o['id']==sys.argv[1]:
        print(json.dumps(o,indent=1))
PY
echo "$WT $OUT"
