#!/bin/bash
# usage: scripts/seed_confirm.sh <seed dir name e.g. C14-a> <agent out dir> [property to check]
# Confirms a seeded defect in a scratch worktree of /repo (removed afterwards) and runs the property's check on it.
set -u
ID="$1"; OUT="$2"; PROP="${3:-${ID%%-*}}"
. /verif/env.sh
SD=/verif/seeded/$ID
mkdir -p "$SD"
cp "$OUT/patch.diff" "$SD/patch.diff"
DEMO_REL=$(cat "$OUT/demo_path.txt" | tr -d '\n ')
cp "$OUT/$(basename "$DEMO_REL")" "$SD/" 2>/dev/null || cp "$OUT"/zz_seed_demo_test.go "$SD/"
cp "$OUT/meta.json" "$SD/agent_meta.json" 2>/dev/null
WT=$(mktemp -d /tmp/sc-XXXXXX); rmdir "$WT"
git -C /repo worktree add -q --detach "$WT" HEAD
cp "$SD/$(basename "$DEMO_REL")" "$WT/$DEMO_REL"
PKG=./$(dirname "$DEMO_REL")
cd "$WT"
go test -count=1 -vet=off -timeout 300s -run '^TestSeedDemo$' "$PKG" > "$SD/demo_without_patch.log" 2>&1; R0=$?
git apply "$SD/patch.diff"; RA=$?
go build ./... > "$SD/build_with_patch.log" 2>&1; RB=$?
go test -count=1 -vet=off -timeout 300s -run '^TestSeedDemo$' "$PKG" > "$SD/demo_with_patch.log" 2>&1; R1=$?
rm -f "$WT/$DEMO_REL"
PKGS=$(git diff --name-only | xargs -n1 dirname | sort -u | sed 's|^|./|' | tr '\n' ' ')
go test -count=1 -vet=off -timeout 600s $PKGS > "$SD/pkg_tests_with_patch.log" 2>&1; R2=$?
cd /verif
VERIF_REPO="$WT" timeout 900 bin/vcgo check -p "$PROP" > "$SD/check_with_patch.log" 2>&1; RC=$?
git -C /repo worktree remove --force "$WT"
echo "seed=$ID prop=$PROP apply=$RA build=$RB demo_without=$R0(expect 0) demo_with=$R1(expect !=0) pkg_tests=$R2(expect 0) check_exit=$RC" | tee "$SD/confirm.txt"
grep -h "VIOLATION\|UNDECIDED" "$SD/check_with_patch.log" | head -5
tail -1 "$SD/check_with_patch.log"
