#!/usr/bin/env python3
"""Regenerates /verif/MANIFEST.json from scripts/claims.json (one entry per property: claimed or not applicable)."""
import json, os, subprocess, sys
vd = os.path.dirname(os.path.dirname(os.path.abspath(__file__)))
claims = json.load(open(os.path.join(vd, "scripts", "claims.json")))
props = [json.loads(l) for l in open(os.path.join(vd, "properties.jsonl"))]
hook_commits = subprocess.run(["git", "-C", "/repo", "log", "--format=%H %s"], capture_output=True, text=True).stdout.splitlines()
hook_commits = [l.split()[0] for l in hook_commits if l.split(" ", 1)[1].startswith("verif:")]
m = {
    "version": 1,
    "setup_cmd": "./build.sh",
    "hooks": {
        "guard": "verif",
        "enable": "go build -tags verif (the guarded files are comment-only contract files <pkg>/zz_verif_contracts.go; vcgo loads /repo with -tags=verif)",
        "baseline_off_cmd": "cd /repo && go test -json -vet=off -count=1 -timeout 25m ./...",
        "source_commits": hook_commits,
        "add_only": True,
    },
    "engines": [{
        "name": "vcgo",
        "path": "tool/cmd/vcgo",
        "serves_properties": sorted(k for k, v in claims.items() if v.get("claimed")),
        "kind_free_text": "contract-based deductive verifier for Go written for this task: verification-condition generator (symbolic execution of go/ssa NaiveForm, Burstall-Bornat heap, loop cut at invariants, modular calls against contracts, frame check) + SMT portfolio (z3 5.1.0, cvc5 1.0.3, z3 4.8.12)",
    }],
    "checks": [],
    "not_applicable": [],
    "notes": "Contracts live in /repo/<pkg>/zz_verif_contracts.go (build tag verif) and /verif/lib/*.spec (trusted library contracts); property -> function map in /verif/props. See DESIGN.md.",
}
for p in props:
    pid = p["id"]
    c = claims.get(pid, {"claimed": False, "reason": "not built yet in this round (see DESIGN.md section 11)"})
    if c.get("claimed"):
        m["checks"].append({
            "property_id": pid,
            "quick_cmd": f"bin/vcgo check -p {pid} -tier quick",
            "thorough_cmd": f"bin/vcgo check -p {pid} -tier thorough",
            "evidence_file": f"evidence/{pid}.json",
            "replay_cmd_template": "bin/vcgo replay {path}",
            "engine": "vcgo",
            "level_claimed": {"category": "proof", "text": c["text"], "design_ref": c.get("design_ref", f"DESIGN.md section 7, {pid}")},
            "level_note": c["note"],
            "technique": c.get("technique", "contract-based deductive verification: generated VCs over go/ssa discharged by z3/cvc5"),
        })
    else:
        m["not_applicable"].append({"property_id": pid, "reason": c["reason"]})
json.dump(m, open(os.path.join(vd, "MANIFEST.json"), "w"), indent=1)
print("checks:", [c["property_id"] for c in m["checks"]], "n/a:", len(m["not_applicable"]))
