#!/bin/sh
# usage: scripts/mut.sh <relative file> <sed expression> <vcgo verify args...>
# applies a one-line mutation to a scratch copy of /repo (under $TMPDIR) and runs vcgo verify on it.
set -e
F="$1"; E="$2"; shift 2
D=$(mktemp -d "${TMPDIR:-/tmp}/vcgo-mut.XXXXXX")
trap 'rm -rf "$D"' EXIT
rsync -a --exclude .git /repo/ "$D/repo/"
sed -i "$E" "$D/repo/$F"
if cmp -s "/repo/$F" "$D/repo/$F"; then echo "MUTATION DID NOT APPLY"; exit 3; fi
diff "/repo/$F" "$D/repo/$F" | head -6 || true
VERIF_REPO="$D/repo" /verif/bin/vcgo "$@" 2>&1 | grep -v "^  assumes" || true
