#!/usr/bin/env python3
"""writes /verif/seeded/<id>/meta.json from the agent's meta and my own confirmation log"""
import json, os, sys, re
sd = sys.argv[1]
d = os.path.join('/verif/seeded', sd)
am = {}
try: am = json.load(open(os.path.join(d, 'agent_meta.json')))
except Exception: pass
conf = open(os.path.join(d, 'confirm.txt')).read().strip()
chk = open(os.path.join(d, 'check_with_patch.log')).read()
viol = [l.strip() for l in chk.splitlines() if l.startswith('VIOLATION') or l.startswith('  obligation')]
m = {
 "seed": sd,
 "property": am.get("property", sd.split('-')[0]),
 "summary": am.get("summary"),
 "needs": am.get("needs"),
 "files": am.get("files"),
 "confirmed_by_me": {
   "what_i_ran": "scripts/seed_confirm.sh: fresh scratch worktree of /repo HEAD (removed afterwards); demo test without the patch, git apply patch.diff, go build ./..., demo test with the patch, tests of the touched packages with the patch, then `VERIF_REPO=<worktree> bin/vcgo check -p <prop>`",
   "result_line": conf,
   "demo_passes_without_patch": " demo_without=0(" in conf,
   "demo_fails_with_patch": re.search(r"demo_with=([1-9]\d*)\(", conf) is not None,
   "touched_package_tests_pass_with_patch": " pkg_tests=0(" in conf,
 },
 "caught_by_check": " check_exit=1" in conf,
 "check_output": viol[:8],
}
if len(sys.argv) > 2: m["note"] = sys.argv[2]
json.dump(m, open(os.path.join(d, 'meta.json'), 'w'), indent=1)
print(sd, "caught" if m["caught_by_check"] else "MISSED")
