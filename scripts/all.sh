#!/bin/sh
# runs the quick check of every claimed property; prints one summary line each (and the check's real exit status)
cd "$(dirname "$0")/.."
for p in $(python3 -c "import json;print(' '.join(c['property_id'] for c in json.load(open('MANIFEST.json'))['checks']))"); do
  bin/vcgo check -p $p -tier ${1:-quick} > /tmp/all-$p.out 2>&1; rc=$?
  grep -v "^KNOWN-FINDING" /tmp/all-$p.out | tail -n 3; echo "  $p exit=$rc"
  rm -f /tmp/all-$p.out
done
