#!/bin/sh
# runs the quick check of every claimed property; prints one summary line each
cd "$(dirname "$0")/.."
for p in $(python3 -c "import json;print(' '.join(c['property_id'] for c in json.load(open('MANIFEST.json'))['checks']))"); do
  bin/vcgo check -p $p -tier ${1:-quick} | tail -n 3; echo "  exit=$?"
done
