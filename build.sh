#!/bin/sh
# builds /verif/bin/vcgo offline from /verif/tool (golang.org/x/tools v0.29.0 from the module cache)
set -e
cd "$(dirname "$0")"
. ./env.sh
mkdir -p bin evidence replays
cd tool && go build -o ../bin/vcgo ./cmd/vcgo
