package main

import (
	"os"
	"go/constant"
	"fmt"
	"go/types"
	"math/big"
	"strings"

	"golang.org/x/tools/go/ssa"
)

type bigInt = big.Int

var bigOne = big.NewInt(1)

func pow2lit(k int) string { return new(big.Int).Lsh(bigOne, uint(k)).String() }

// ---------------------------------------------------------------------------
// Call classification
// ---------------------------------------------------------------------------

func calleeName(cc *ssa.CallCommon) string {
	if cc.IsInvoke() {
		return "invoke " + typeKey(cc.Value.Type()) + "." + cc.Method.Name()
	}
	if f := cc.StaticCallee(); f != nil {
		return funcKey(f)
	}
	if b, ok := cc.Value.(*ssa.Builtin); ok {
		return "builtin " + b.Name()
	}
	return "dynamic " + cc.Value.Name()
}

var noopPrefixes = []string{
	"logger::", "metric::", "metric/", "tracing::", "querytracer::",
	"go.uber.org/zap", "github.com/prometheus/", "go.opencensus.io/",
	"sync::(*Mutex).", "sync::(*RWMutex).", "sync::(*WaitGroup).", "sync::(*Once).Do",
	"runtime::", "time::Sleep",
	"metric/stopwatch::",
}

var abortNames = map[string]bool{
	"logger::Panic": true, "logger::Fatal": true, "os::Exit": true, "log::Fatal": true, "log::Fatalf": true, "log::Panicf": true, "log::Panic": true,
}

func isNoopCall(name string) bool {
	if abortNames[name] {
		return false
	}
	for _, p := range noopPrefixes {
		if strings.HasPrefix(name, p) {
			return true
		}
	}
	if strings.HasPrefix(name, "invoke ") {
		for _, p := range []string{"github.com/prometheus/", "go.uber.org/zap", "go.opencensus.io/", " metric/stopwatch.", " metric.", " querytracer.", " tracing."} {
			if strings.Contains(name, p) {
				return true
			}
		}
	}
	return false
}

// pure library packages: results are unconstrained values, the heap is not touched.
var purePrefixes = []string{
	"math::", "math/bits::", "strconv::", "strings::", "bytes::", "unicode::", "unicode/utf8::", "time::", "errors::", "fmt::Errorf", "fmt::Sprintf", "fmt::Sprint",
	"sort::Search", "slices::Contains", "slices::Index", "cmp::", "path/filepath::", "path::", "encoding/binary::", "unsafe::", "hash/", "math/rand::", "math/rand/v2::",
	"github.com/valyala/fastrand::", "os::IsNotExist", "os::IsExist", "io::", "context::", "google.golang.org/grpc/status::", "google.golang.org/grpc/codes::",
	"google.golang.org/protobuf/types/known/", "go.uber.org/multierr::", "go.uber.org/atomic::", "github.com/c2h5oh/datasize::",
}

func isPureCall(name string) bool {
	for _, p := range purePrefixes {
		if strings.HasPrefix(name, p) {
			return true
		}
	}
	return false
}

func (s *State) execCall(call *ssa.Call) ([]*State, bool) {
	cc := &call.Call
	return s.doCall(call, cc)
}

func (s *State) doCall(call *ssa.Call, cc *ssa.CallCommon) ([]*State, bool) {
	c := s.C
	fr := s.Frame
	name := calleeName(cc)
	occ := fr.CallCount[name] + 1
	fr.CallCount[name] = occ
	anchorName := name
	if j := strings.Index(name, "::"); j >= 0 {
		anchorName = name[j+2:]
	}
	// effect discipline (`forbids K`): checked at every call executed on behalf of the function under verification,
	// including the calls of the functions it inlines
	if top := s.topFrame(); top.Spec != nil && len(top.Spec.Forbids) > 0 {
		for _, k := range top.Spec.Forbids {
			if strings.HasPrefix(name, k) {
				s.oblige("forbidden-call@"+sanitize(name), "no call of "+k+" (directly or through inlined code)", c.posOf(call.Pos()), "false")
			}
		}
		if strings.HasPrefix(name, "dynamic ") || strings.HasPrefix(name, "invoke ") {
			c.assume("A-EFFECT: calls through function values and interfaces in " + c.Key + " are taken not to perform what it forbids (" + strings.Join(top.Spec.Forbids, ", ") + ")")
		}
	}
	beforeAnchor := fmt.Sprintf("before %s#%d", anchorName, occ)
	if strings.HasPrefix(name, "dynamic ") {
		// a call through a function-valued parameter or local: anchored by the variable's name (`before push#k`)
		if pn := paramNameOf(cc.Value); pn != "" {
			beforeAnchor = fmt.Sprintf("before %s#%d", pn, fr.bump("dynb "+pn))
		}
	}
	if fr.Spec != nil && fr.Caller == nil && len(fr.Spec.Ghost) > 0 {
		// ghost statements anchored before a call see its arguments as carg0, carg1, ... (receiver first for methods)
		extra := map[string]TV{}
		for i, a := range cc.Args {
			func() {
				defer func() { recover() }()
				extra[fmt.Sprintf("carg%d", i)] = s.valueTV(s.get(a), a.Type())
			}()
		}
		s.ghostExtra = extra
		s.runGhost(fr, beforeAnchor)
		s.ghostExtra = nil
	}
	defer func() {
		// note: for inlined calls this runs when the frame is pushed, not on return; ghost anchors
		// after inlined calls are therefore not supported (contract calls only)
	}()
	if b, ok := cc.Value.(*ssa.Builtin); ok {
		next, stop := s.execBuiltin(call, b.Name(), cc.Args)
		return next, stop
	}
	if abortNames[name] {
		s.safety("safe-panic", call, "false")
		return nil, true
	}
	if isNoopCall(name) {
		c.assume("A-LOG: logging/metrics/tracing/lock calls are no-ops")
		s.bindFreshResult(call, "noop")
		s.runGhostAfter(fr, call, fmt.Sprintf("after %s#%d", anchorName, occ))
		return nil, false
	}
	var fn *ssa.Function
	var closure *Closure
	var args []Value
	for _, a := range cc.Args {
		args = append(args, s.get(a))
	}
	if cc.IsInvoke() {
		recv := s.term(cc.Value)
		args = append([]Value{recv}, args...)
		if sp := c.ifaceMethodSpec(cc.Value.Type(), cc.Method.Name()); sp != nil {
			s.safety("safe-nil", call, fmt.Sprintf("(not (= (i.tag %s) 0))", recv))
			sig := cc.Method.Type().(*types.Signature)
			s.contractCall(call, sp, nil, sig, args, name, occ, true)
			s.runGhostAfter(fr, call, fmt.Sprintf("after %s#%d", anchorName, occ))
			return nil, false
		}
		// known implementations?
		s.safety("safe-nil", call, fmt.Sprintf("(not (= (i.tag %s) 0))", recv))
		s.unknownCall(call, name, cc.Signature())
		s.runGhostAfter(fr, call, fmt.Sprintf("after %s#%d", anchorName, occ))
		return nil, false
	}
	switch v := s.get(cc.Value).(type) {
	case *FuncRef:
		fn = v.Fn
	case *Closure:
		fn = v.Fn
		closure = v
	case string:
		if cl, ok := closureReg[v]; ok {
			fn, closure = cl.Fn, cl
		}
	}
	if fn == nil {
		// dynamic call through a function value
		if sp := c.funcTypeSpec(cc.Value.Type()); sp != nil {
			// the named function type has a contract (funcspec <TypeName>); `fn` denotes the called value
			if t, ok := s.get(cc.Value).(string); ok {
				s.dynFnValue = t
			}
			s.contractCall(call, sp, nil, cc.Signature(), args, name, occ, false)
			s.runGhostAfter(fr, call, fmt.Sprintf("after %s#%d", anchorName, occ))
			return nil, false
		}
		if spn, ok := c.Spec.CallSpecs[cc.Value.Name()]; ok {
			if sp := c.SS.Funcs["funcspec::"+spn]; sp != nil {
				s.contractCall(call, sp, nil, cc.Signature(), args, name, occ, false)
				return nil, false
			}
		}
		if pn := paramNameOf(cc.Value); pn != "" {
			if spn, ok := c.Spec.CallSpecs[pn]; ok {
				if sp := c.SS.Funcs["funcspec::"+spn]; sp != nil {
					s.contractCall(call, sp, nil, cc.Signature(), args, name, occ, false)
					s.runGhostAfter(fr, call, fmt.Sprintf("after %s#%d", pn, fr.bump("dyn "+pn)))
					return nil, false
				}
			}
		}
		s.unknownCall(call, name, cc.Signature())
		return nil, false
	}
	key := funcKey(fn)
	if key == "sort::Search" {
		return s.sortSearch(call, args)
	}
	if key == "sort::Sort" || key == "sort::Stable" {
		if s.sortSort(call, cc) {
			return nil, false
		}
	}
	if key == "fmt::Errorf" {
		if s.fmtErrorf(call, cc, args) {
			s.runGhostAfter(fr, call, fmt.Sprintf("after %s#%d", anchorName, occ))
			return nil, false
		}
	}
	if key == "sort::Slice" || key == "sort::SliceStable" {
		if s.sortSlice(call, cc, args) {
			return nil, false
		}
	}
	if sp := c.SS.specFor(fn); sp != nil && (sp.HasBody || sp.Trusted) && !sp.Inline {
		s.calledClosure = closure
		if top := s.topFrame(); top.Spec != nil && !strings.HasSuffix(sp.File, ".spec") {
			for _, k := range top.Spec.Forbids {
				has := false
				for _, k2 := range sp.Forbids {
					if strings.HasPrefix(k, k2) {
						has = true
					}
				}
				if !has {
					s.oblige("forbids-callee@"+sanitize(key), "the called function "+key+" forbids "+k+" too (its contract says so)", c.posOf(call.Pos()), "false")
				}
			}
		}
		s.contractCall(call, sp, fn, fn.Signature, args, key, occ, false)
		s.runGhostAfter(fr, call, fmt.Sprintf("after %s#%d", anchorName, occ))
		return nil, false
	}
	if len(fn.Blocks) > 0 && fr.Depth < 8 && c.inlinable(fn) && (c.loopInfo(fn) == nil || len(c.loopInfo(fn).loops) == 0) && !c.isRecursive(fn, fr) {
		// inline
		nf := c.newFrame(fn, fr)
		nf.CallIns = call
		nf.Closure = closure
		nf.Params = args
		nf.Spec = c.SS.specFor(fn)
		for i, p := range fn.Params {
			nf.Vals[p] = args[i]
		}
		s.Frame = nf
		return nil, false
	}
	if isPureCall(key) {
		c.assume("A-LIB: " + key + " is pure; its result is unconstrained")
		s.bindFreshResult(call, "lib")
		return nil, false
	}
	s.unknownCall(call, key, fn.Signature)
	return nil, false
}

func (fr *Frame) bump(k string) int {
	fr.CallCount[k]++
	return fr.CallCount[k]
}

func paramNameOf(v ssa.Value) string {
	// a load of the local cell holding a parameter
	if u, ok := v.(*ssa.UnOp); ok {
		if a, ok := u.X.(*ssa.Alloc); ok {
			return a.Comment
		}
		if fv, ok := u.X.(*ssa.FreeVar); ok {
			return fv.Name()
		}
	}
	if p, ok := v.(*ssa.Parameter); ok {
		return p.Name()
	}
	return ""
}

func (c *Ctx) isRecursive(fn *ssa.Function, fr *Frame) bool {
	for f := fr; f != nil; f = f.Caller {
		if f.Fn == fn {
			return true
		}
	}
	return false
}

func (s *State) bindFreshResult(call *ssa.Call, prefix string) {
	rt := callResultType(call)
	if tup, ok := rt.(*types.Tuple); ok {
		if tup.Len() == 0 {
			return
		}
		var vals []Value
		for i := 0; i < tup.Len(); i++ {
			vals = append(vals, s.freshOf(prefix, tup.At(i).Type()))
		}
		s.Frame.Vals[call] = &Tuple{vals}
		return
	}
	s.Frame.Vals[call] = s.freshOf(prefix, rt)
}

func (s *State) unknownCall(call *ssa.Call, name string, sig *types.Signature) {
	if os.Getenv("VCGO_TRACE") != "" {
		fmt.Fprintf(os.Stderr, "unknownCall %s in %s (depth %d)\n", name, s.Frame.Fn.String(), s.Frame.Depth)
		if sp, ok := s.C.SS.Funcs[name]; ok {
			fmt.Fprintf(os.Stderr, "  spec: hasbody=%v trusted=%v inline=%v\n", sp.HasBody, sp.Trusted, sp.Inline)
		} else {
			fmt.Fprintf(os.Stderr, "  no spec under that key\n")
		}
	}
	s.abstracted("unmodelled call " + name)
	s.havocAllHeap("call " + name)
	s.bindFreshResult(call, "unk")
}

// funcTypeSpec: the contract attached to a named function type (`funcspec <TypeName>` in the type's package).
func (c *Ctx) funcTypeSpec(t types.Type) *FuncSpec {
	n, ok := types.Unalias(t).(*types.Named)
	if !ok || n.Obj().Pkg() == nil {
		return nil
	}
	if _, isSig := n.Underlying().(*types.Signature); !isSig {
		return nil
	}
	sp := c.SS.Funcs["funcspec::"+n.Obj().Name()]
	if sp != nil && sp.Pkg == shortPkg(n.Obj().Pkg().Path()) {
		return sp
	}
	return nil
}

func (c *Ctx) ifaceMethodSpec(t types.Type, method string) *FuncSpec {
	n, ok := types.Unalias(t).(*types.Named)
	if !ok {
		return nil
	}
	if n.Obj().Pkg() == nil {
		// universe: error
		if is, ok := c.SS.Ifaces["::"+n.Obj().Name()]; ok {
			return is.Methods[method]
		}
		return nil
	}
	key := shortPkg(n.Obj().Pkg().Path()) + "::" + n.Obj().Name()
	if is, ok := c.SS.Ifaces[key]; ok {
		return is.Methods[method]
	}
	return nil
}

// ---------------------------------------------------------------------------
// Contract calls
// ---------------------------------------------------------------------------

func (s *State) valueTV(v Value, t types.Type) TV {
	c := s.C
	switch v := v.(type) {
	case string:
		return c.mkTV(v, t)
	case *Loc:
		tv := TV{Loc: v, Ty: t, Sort: "Int"}
		if (v.Kind == LocObj || v.Kind == LocBox || v.Kind == LocArr) && len(v.Path) == 0 {
			tv.T = v.Ref
		}
		return tv
	case *Closure:
		return TV{T: s.closureTerm(v), Ty: t, Sort: "Int"}
	case *FuncRef:
		n := "fn!" + sanitize(v.Fn.String())
		c.declare(n, "Int")
		return TV{T: n, Ty: t, Sort: "Int"}
	}
	return TV{T: "0", Ty: t, Sort: "Int"}
}

func (s *State) contractCall(call *ssa.Call, sp *FuncSpec, fn *ssa.Function, sig *types.Signature, args []Value, name string, occ int, invoke bool) {
	c := s.C
	pkg := c.findPackage(sp.Pkg, c.pkgOf(c.Fn))
	if fn != nil {
		pkg = c.pkgOf(fn)
	}
	fnValue := s.dynFnValue
	s.dynFnValue = ""
	calledClosure := s.calledClosure
	s.calledClosure = nil
	mkEnv := func(heap Heap, cells map[*Cell]Term, ghost map[string]TV) *SpecEnv {
		env := &SpecEnv{S: s, C: c, Heap: heap, Cells: cells, Vars: map[string]TV{}, Pkg: pkg, Ghost: ghost}
		if fnValue != "" {
			env.Vars["fn"] = TV{T: fnValue, Sort: "Int"}
		}
		if calledClosure != nil && fn != nil {
			// the contract of a closure may name the variables it has captured
			for k, fv := range fn.FreeVars {
				if k < len(calledClosure.Bindings) {
					if l, ok := calledClosure.Bindings[k].(*Loc); ok {
						if pt, ok := fv.Type().Underlying().(*types.Pointer); ok {
							s.touch(l)
							t, _ := s.loadIn(heap, cells, l)
							env.Vars[fv.Name()] = TV{T: t, Loc: l, Ty: pt.Elem(), Sort: c.sortOf(pt.Elem())}
						}
					}
				}
			}
		}
		i := 0
		if sig.Recv() != nil || invoke {
			var rt types.Type
			if sig.Recv() != nil {
				rt = sig.Recv().Type()
			} else {
				rt = call.Call.Value.Type()
			}
			tv := s.valueTV(args[0], rt)
			env.Vars["this"] = tv
			if sig.Recv() != nil && sig.Recv().Name() != "" {
				env.Vars[sig.Recv().Name()] = tv
			}
			if fn != nil && len(fn.Params) > 0 {
				env.Vars[fn.Params[0].Name()] = tv
			}
			i = 1
		}
		for j := 0; j < sig.Params().Len(); j++ {
			p := sig.Params().At(j)
			tv := s.valueTV(args[i+j], p.Type())
			pn := p.Name()
			if fn != nil && i+j < len(fn.Params) {
				pn = fn.Params[i+j].Name()
			}
			if pn != "" && pn != "_" {
				env.Vars[pn] = tv
			}
			env.Vars[fmt.Sprintf("arg%d", j)] = tv
		}
		return env
	}
	pre := mkEnv(s.Heap, s.Cells, s.Ghost)
	// a function value passed where a function type with a contract is expected must come with a contract that
	// `implements` it (the callee assumes that contract at its calls through the parameter)
	{
		off := 0
		if sig.Recv() != nil || invoke {
			off = 1
		}
		for j := 0; j < sig.Params().Len(); j++ {
			ft := c.funcTypeSpec(sig.Params().At(j).Type())
			if ft == nil {
				// a parameter the callee's contract binds to a function contract with `callspec`
				pn := sig.Params().At(j).Name()
				if fn != nil && off+j < len(fn.Params) {
					pn = fn.Params[off+j].Name()
				}
				if spn, ok := sp.CallSpecs[pn]; ok {
					ft = c.SS.Funcs["funcspec::"+spn]
				}
			}
			if ft == nil || off+j >= len(args) {
				continue
			}
			var afn *ssa.Function
			switch v := args[off+j].(type) {
			case *Closure:
				afn = v.Fn
			case *FuncRef:
				afn = v.Fn
			case string:
				if cl, ok := closureReg[v]; ok {
					afn = cl.Fn
				}
			}
			want := strings.TrimPrefix(ft.Name, "funcspec ")
			ok := false
			if afn != nil {
				if asp := c.SS.specFor(afn); asp != nil && asp.Implements == want {
					ok = true
				}
			} else if pn := paramNameOf(call.Call.Args[j]); pn != "" && (c.funcTypeSpec(call.Call.Args[j].Type()) == ft || c.Spec.CallSpecs[pn] == want) {
				ok = true // passed on from the caller's own parameter bound to the same function contract
			}
			if cl, isCl := args[off+j].(*Closure); isCl && ok {
				// the closure's own preconditions speak about what it captured (and ghost state): they must hold
				// where the closure is handed over (A-CAPTURE: and stay true until it is called)
				asp := c.SS.specFor(cl.Fn)
				cenv := &SpecEnv{S: s, C: c, Heap: s.Heap, Cells: s.Cells, Vars: map[string]TV{}, Pkg: c.pkgOf(cl.Fn), Ghost: s.Ghost}
				for k, fv := range cl.Fn.FreeVars {
					if k < len(cl.Bindings) {
						if l, isLoc := cl.Bindings[k].(*Loc); isLoc {
							t, ty := s.load(l)
							cenv.Vars[fv.Name()] = c.mkTV(t, ty)
						}
					}
				}
				for ri, r := range asp.Requires {
					if _, err := cenv.evalBool(r.E); err != nil && strings.Contains(err.Error(), "unknown identifier") && c.mentionsForeignGhost(r.Src) {
						// conjuncts about the closure's own ghost variables (their initial values) are not demands on the
						// code that hands the closure over
						for k, cj := range splitConj(r.E) {
							if _, err := cenv.evalBool(cj); err != nil {
								continue
							}
							s.obligeExpr(fmt.Sprintf("closure-pre#%d.%d@%s#%d", ri+1, k+1, short0(name), occ), r.Src, c.posOf(call.Pos()), cenv, cj, fmt.Sprintf("%s:%d: requires of the closure %s", r.File, r.Line, funcKey(cl.Fn)))
						}
						continue
					}
					s.obligeExpr(fmt.Sprintf("closure-pre#%d@%s#%d", ri+1, short0(name), occ), r.Src, c.posOf(call.Pos()), cenv, r.E, fmt.Sprintf("%s:%d: requires of the closure %s", r.File, r.Line, funcKey(cl.Fn)))
				}
				c.assume("A-CAPTURE: what a closure's preconditions say about its captured variables and the ghost state still holds when the closure is called")
			}
			goal := "false"
			if ok {
				goal = "true"
			}
			s.oblige(fmt.Sprintf("implements#%d@%s#%d", j+1, strings.TrimPrefix(name[strings.Index(name, "::")+1:], ":"), occ), "the function value passed for parameter "+sig.Params().At(j).Name()+" has a contract that implements "+want, c.posOf(call.Pos()), goal)
		}
	}
	short := name
	if j := strings.Index(name, "::"); j >= 0 {
		short = name[j+2:]
	}
	for i, r := range sp.Requires {
		t, err := pre.evalBool(r.E)
		if err != nil {
			if strings.Contains(err.Error(), "unknown identifier") && c.mentionsForeignGhost(r.Src) {
				// the clause speaks about the callee's own ghost variables (their initial values: not a demand on this
				// caller); its other conjuncts are demands like any other
				for k, cj := range splitConj(r.E) {
					tc, err := pre.evalBool(cj)
					if err != nil {
						if strings.Contains(err.Error(), "unknown identifier") {
							continue
						}
						panic(evalErr(fmt.Sprintf("%s:%d: requires of %s: %v", r.File, r.Line, name, err)))
					}
					s.obligeExpr(fmt.Sprintf("pre#%d.%d@%s#%d", i+1, k+1, short, occ), r.Src, c.posOf(call.Pos()), pre, cj, fmt.Sprintf("%s:%d: requires of %s", r.File, r.Line, name))
					s.assert(tc)
				}
				continue
			}
			panic(evalErr(fmt.Sprintf("%s:%d: requires of %s: %v", r.File, r.Line, name, err)))
		}
		s.obligeExpr(fmt.Sprintf("pre#%d@%s#%d", i+1, short, occ), r.Src, c.posOf(call.Pos()), pre, r.E, fmt.Sprintf("%s:%d: requires of %s", r.File, r.Line, name))
		s.assert(t)
	}
	snap := s.snapshot()
	pathBefore := s.Path
	wmBefore := s.WM
	// callee may allocate: whatever it leaves in the modified locations or returns may be new
	nw := s.freshConst("WM", "Int")
	s.assert(fmt.Sprintf("(>= %s %s)", nw, s.WM))
	s.WM = nw
	// frame: every entry denotes a location of the pre-state (evaluate against the snapshot, not against the
	// heap that the previous entries have already havocked)
	preSnap := mkEnv(snap.Heap, snap.Cells, snap.Ghost)
	for _, m := range sp.Modifies {
		if c.isForeignGhost(strings.TrimSpace(m), s) {
			continue
		}
		s.havocLocation(preSnap, m, sp)
	}
	// results
	s.bindFreshResult(call, "r_"+sanitize(short))
	post := mkEnv(s.Heap, s.Cells, s.Ghost)
	post.Old = mkEnv(snap.Heap, snap.Cells, snap.Ghost)
	post.Ghost0 = snap.Ghost
	post.Old.Ghost0 = snap.Ghost
	post.WM0 = wmBefore
	res := sig.Results()
	if rv, ok := s.Frame.Vals[call]; ok {
		if tup, ok := rv.(*Tuple); ok {
			for i, v := range tup.Vals {
				tv := s.valueTV(v, res.At(i).Type())
				post.Vars[fmt.Sprintf("result%d", i)] = tv
				if n := res.At(i).Name(); n != "" && n != "_" {
					post.Vars[n] = tv
				}
			}
		} else {
			tv := s.valueTV(rv, res.At(0).Type())
			post.Vars["result"] = tv
			post.Vars["result0"] = tv
			if n := res.At(0).Name(); n != "" && n != "_" {
				post.Vars[n] = tv
			}
		}
	}
	for _, e := range sp.Ensures {
		t, err := post.evalBool(e.E)
		if err != nil {
			if strings.Contains(err.Error(), "unknown identifier") && c.mentionsForeignGhost(e.Src) {
				// the clause talks about a ghost variable that the function under verification does not declare:
				// those conjuncts are irrelevant here (assuming less is sound); the others are assumed
				cjs := splitConj(e.E)
				if len(cjs) > 1 {
					for _, cj := range cjs {
						if tc, err := post.evalBool(cj); err == nil {
							s.assert(tc)
						}
					}
				}
				c.noteOnce(fmt.Sprintf("ensures of %s not assumed in full (%v): %s", name, err, e.Src))
				continue
			}
			panic(evalErr(fmt.Sprintf("%s:%d: ensures of %s: %v", e.File, e.Line, name, err)))
		}
		s.assert(t)
	}
	// a contradictory callee contract would make everything after the call vacuous
	c.addObl(s, &Obligation{Name: fmt.Sprintf("%s/vac-call@%s#%d", c.Key, short, occ), Kind: "vac", Func: c.Key, Desc: "assumptions still satisfiable after assuming the contract of " + short, Pos: c.posOf(call.Pos()), Path: s.Path, Before: pathBefore, Goal: "false", ExpectSat: true, PathID: s.PathID})
	if sp.Trusted {
		c.assume("trusted contract: " + sp.Pkg + "::" + sp.Name + strings.Join(sp.Notes, "; "))
	} else if strings.HasSuffix(sp.File, ".spec") {
		c.assume("A-LIB: assumed contract of " + sp.Pkg + "::" + sp.Name)
	}
}

// havocLocation havocs what a `modifies` entry denotes, evaluated in env (the pre-state).
func (s *State) havocLocation(env *SpecEnv, m string, sp *FuncSpec) {
	c := s.C
	m = strings.TrimSpace(m)
	if m == "heap" {
		s.havocAllHeap("modifies heap")
		return
	}
	if strings.HasPrefix(m, "every ") {
		cn, cs, err := c.everyComp(env, m)
		if err != nil {
			panic(evalErr(err.Error()))
		}
		s.setComp(cn, cs, s.freshConst("hvE", cs))
		return
	}
	star := false
	if strings.HasSuffix(m, "[*]") {
		star = true
		m = strings.TrimSuffix(m, "[*]")
	}
	all := false
	if strings.HasSuffix(m, ".*") {
		all = true
		m = strings.TrimSuffix(m, ".*")
	}
	ex, err := parseSpecExpr(m)
	if err != nil {
		panic(evalErr(fmt.Sprintf("modifies %q: %v", m, err)))
	}
	if star {
		v, err := env.evalAny(ex)
		if err != nil {
			panic(evalErr(fmt.Sprintf("modifies %q: %v", m, err)))
		}
		switch u := c.under(v.Ty).(type) {
		case *types.Slice:
			cn, cs := c.elemComp(u.Elem())
			E := s.comp(cn, cs)
			// the whole backing array of the slice is havocked (callers assume nothing about cells outside
			// the slice's window either; the frame check of the callee is per backing array as well)
			A := s.freshConst("hvA", "(Array Int "+c.sortOf(u.Elem())+")")
			s.setComp(cn, cs, fmt.Sprintf("(store %s (s.base %s) %s)", E, v.T, A))
		case *types.Map:
			dn, vn, ln, ds, vs, ls := c.mapComps(u)
			for _, p := range [][2]string{{dn, ds}, {vn, vs}, {ln, ls}} {
				_, rs := arraySorts(p[1])
				f := s.freshConst("hvM", rs)
				s.setComp(p[0], p[1], fmt.Sprintf("(store %s %s %s)", s.comp(p[0], p[1]), v.T, f))
			}
			_, _, _ = dn, vn, ln
		default:
			panic(evalErr(fmt.Sprintf("modifies %s[*]: not a slice or map", m)))
		}
		return
	}
	if all {
		v, err := env.evalAny(ex)
		if err != nil {
			panic(evalErr(fmt.Sprintf("modifies %q: %v", m, err)))
		}
		var l *Loc
		if v.Loc != nil {
			l = v.Loc
		} else if p, ok := c.under(v.Ty).(*types.Pointer); ok {
			l = c.ptrLoc(v.T, p.Elem())
		} else {
			panic(evalErr(fmt.Sprintf("modifies %s.*: not a pointer", m)))
		}
		target := c.pathType(l.Ty, l.Path)
		s.store(l, s.freshOf("hv", target))
		return
	}
	// single location: x.f  (x pointer or engine location)
	sel, ok := ex.(*ESel)
	if !ok {
		if u, ok := ex.(*EUn); ok && u.Op == "*" {
			v, err := env.evalAny(u.X)
			if err != nil {
				panic(evalErr(fmt.Sprintf("modifies %q: %v", m, err)))
			}
			var l *Loc
			if v.Loc != nil {
				l = v.Loc
			} else if p, ok := c.under(v.Ty).(*types.Pointer); ok {
				l = c.ptrLoc(v.T, p.Elem())
			}
			if l != nil {
				s.store(l, s.freshOf("hv", c.pathType(l.Ty, l.Path)))
				return
			}
		}
		if id, ok := ex.(*EIdent); ok {
			if g, ok := s.Ghost[id.Name]; ok {
				n := s.freshConst("g_"+id.Name, g.Sort)
				s.Ghost[id.Name] = TV{T: n, Sort: g.Sort, Ty: g.Ty}
				return
			}
			// a variable the called closure has captured
			// (a closure's contract names the variables it captures by the names they have in the enclosing function,
			// which is where the closure is called from)
			if v, ok := env.Vars[id.Name]; ok && v.Loc != nil {
				s.store(v.Loc, s.freshOf("hv_"+id.Name, c.pathType(v.Loc.Ty, v.Loc.Path)))
				return
			}
		}
		panic(evalErr(fmt.Sprintf("modifies %q: unsupported location form", m)))
	}
	if fl, err := env.addrSafe(sel); err == nil && fl != nil {
		s.store(fl, s.freshOf("hv_"+sel.Name, c.pathType(fl.Ty, fl.Path)))
		return
	}
	base, err := env.evalAny(sel.X)
	if err != nil {
		panic(evalErr(fmt.Sprintf("modifies %q: %v", m, err)))
	}
	var l *Loc
	var target types.Type
	if base.Loc != nil && base.T == "" || base.Loc != nil {
		l = base.Loc
		target = c.pathType(l.Ty, l.Path)
	} else if p, ok := c.under(base.Ty).(*types.Pointer); ok {
		l = c.ptrLoc(base.T, p.Elem())
		target = p.Elem()
	} else {
		panic(evalErr(fmt.Sprintf("modifies %q: base is not a pointer", m)))
	}
	path := fieldPath(target, sel.Name)
	if len(path) != 1 {
		panic(evalErr(fmt.Sprintf("modifies %q: field not found (or promoted)", m)))
	}
	fl := l.with(PathSel{Field: path[0], Cont: target})
	ft := c.structOf(target).Field(path[0]).Type()
	s.store(fl, s.freshOf("hv_"+sel.Name, ft))
}

// ---------------------------------------------------------------------------
// Builtins
// ---------------------------------------------------------------------------

func (s *State) execBuiltin(call *ssa.Call, name string, args []ssa.Value) ([]*State, bool) {
	c := s.C
	switch name {
	case "len", "cap":
		x := s.term(args[0])
		switch u := c.under(args[0].Type()).(type) {
		case *types.Slice:
			s.set(call, fmt.Sprintf("(s.%s %s)", name, x))
		case *types.Basic:
			s.set(call, fmt.Sprintf("(gs.len %s)", x))
		case *types.Map:
			_, _, ln, _, _, ls := c.mapComps(u)
			r := s.name("maplen", "Int", fmt.Sprintf("(ite (= %s 0) 0 (select %s %s))", x, s.comp(ln, ls), x))
			s.assert(fmt.Sprintf("(>= %s 0)", r))
			s.set(call, r)
		case *types.Array:
			s.set(call, fmt.Sprint(u.Len()))
		case *types.Pointer:
			s.set(call, fmt.Sprint(c.under(u.Elem()).(*types.Array).Len()))
		case *types.Chan:
			s.set(call, s.freshOf("chanlen", tyInt))
		default:
			panic(abortPath{"len of " + args[0].Type().String()})
		}
	case "append":
		return s.execAppend(call, args)
	case "copy":
		s.execCopy(call, args)
	case "delete":
		u := c.under(args[0].Type()).(*types.Map)
		m, k := s.term(args[0]), s.term(args[1])
		dn, _, ln, ds, _, ls := c.mapComps(u)
		D, L := s.comp(dn, ds), s.comp(ln, ls)
		had := fmt.Sprintf("(select (select %s %s) %s)", D, m, k)
		s.setComp(ln, ls, fmt.Sprintf("(ite (= %s 0) %s (store %s %s (- (select %s %s) (ite %s 1 0))))", m, L, L, m, L, m, had))
		s.setComp(dn, ds, fmt.Sprintf("(ite (= %s 0) %s (store %s %s (store (select %s %s) %s false)))", m, D, D, m, D, m, k))
	case "min", "max":
		r := s.term(args[0])
		op := "<="
		if name == "max" {
			op = ">="
		}
		for _, a := range args[1:] {
			y := s.term(a)
			if c.sortOf(a.Type()) == "Str" {
				panic(abortPath{"min/max on strings"})
			}
			r = s.name("mm", c.sortOf(a.Type()), fmt.Sprintf("(ite (%s %s %s) %s %s)", op, r, y, r, y))
		}
		s.set(call, r)
	case "panic":
		s.safety("safe-panic", call, "false")
		return nil, true
	case "print", "println", "ssa:deferstack":
		if name == "ssa:deferstack" {
			s.Frame.Vals[call] = "0"
		}
	case "ssa:wrapnilchk":
		s.Frame.Vals[call] = s.get(args[0])
	case "clear":
		switch u := c.under(args[0].Type()).(type) {
		case *types.Map:
			m := s.term(args[0])
			dn, _, ln, ds, _, ls := c.mapComps(u)
			s.setComp(dn, ds, fmt.Sprintf("(store %s %s ((as const (Array %s Bool)) false))", s.comp(dn, ds), m, c.sortOf(u.Key())))
			s.setComp(ln, ls, fmt.Sprintf("(store %s %s 0)", s.comp(ln, ls), m))
		case *types.Slice:
			x := s.name("clr", "Slice", s.term(args[0]))
			cn, cs := c.elemComp(u.Elem())
			es := c.sortOf(u.Elem())
			E := s.comp(cn, cs)
			A := s.name("clr_A", "(Array Int "+es+")", fmt.Sprintf("(select %s (s.base %s))", E, x))
			An := s.freshConst("clr_new", "(Array Int "+es+")")
			q := c.fresh("j")
			s.assert(fmt.Sprintf("(forall ((%s Int)) (! (= (select %s %s) (ite (and (<= (s.off %s) %s) (< %s (+ (s.off %s) (s.len %s)))) %s (select %s %s))) :pattern ((select %s %s))))",
				q, An, q, x, q, q, x, x, c.zero(u.Elem()), A, q, An, q))
			s.setComp(cn, cs, fmt.Sprintf("(ite (= (s.len %s) 0) %s (store %s (s.base %s) %s))", x, E, E, x, An))
		default:
			panic(abortPath{"clear of " + args[0].Type().String()})
		}
	case "close":
		s.abstracted("close of channel")
	case "recover":
		s.Frame.Vals[call] = "(mk-iface 0 0)"
	default:
		panic(abortPath{"unsupported builtin " + name})
	}
	return nil, false
}

// constLenOf: statically known small length of the slice value (varargs literal), or -1.
func constLenOf(v ssa.Value) int {
	if sl, ok := v.(*ssa.Slice); ok && sl.Low == nil && sl.High == nil {
		if a, ok := sl.X.(*ssa.Alloc); ok {
			if at, ok := a.Type().(*types.Pointer).Elem().Underlying().(*types.Array); ok && at.Len() <= 4 {
				return int(at.Len())
			}
		}
	}
	if k, ok := v.(*ssa.Const); ok && k.Value == nil {
		return 0
	}
	return -1
}

func (s *State) execAppend(call *ssa.Call, args []ssa.Value) ([]*State, bool) {
	c := s.C
	st := c.under(args[0].Type()).(*types.Slice)
	et := st.Elem()
	es := c.sortOf(et)
	x := s.term(args[0])
	x = s.name("ap_s", "Slice", x)
	cn, cs := c.elemComp(et)
	E := s.comp(cn, cs)
	Aold := s.name("ap_A", "(Array Int "+es+")", fmt.Sprintf("(select %s (s.base %s))", E, x))
	var n Term
	k := constLenOf(args[1])
	var srcElem func(j Term) Term
	if c.sortOf(args[1].Type()) == "Str" {
		y := s.term(args[1])
		n = fmt.Sprintf("(gs.len %s)", y)
		srcElem = func(j Term) Term { return fmt.Sprintf("(gs.at %s %s)", y, j) }
		k = -1
	} else {
		y := s.term(args[1])
		y = s.name("ap_t", "Slice", y)
		n = fmt.Sprintf("(s.len %s)", y)
		// read source elements from the heap as it is before the append
		B := s.name("ap_B", "(Array Int "+es+")", fmt.Sprintf("(select %s (s.base %s))", E, y))
		srcElem = func(j Term) Term { return fmt.Sprintf("(select %s (idx (s.off %s) %s))", B, y, j) }
		if k >= 0 {
			n = fmt.Sprint(k)
		}
	}
	ln := fmt.Sprintf("(s.len %s)", x)
	fits := s.name("ap_fits", "Bool", fmt.Sprintf("(<= (+ %s %s) (s.cap %s))", ln, n, x))
	if k == 0 {
		s.set(call, x)
		return nil, false
	}
	nb := s.newRef("ap_base")
	ncap := s.freshConst("ap_cap", "Int")
	s.assert(fmt.Sprintf("(>= %s (+ %s %s))", ncap, ln, n))
	An := s.freshConst("ap_new", "(Array Int "+es+")")
	q := c.fresh("j")
	// the reallocated array holds a copy of the old elements
	s.assert(fmt.Sprintf("(forall ((%s Int)) (=> (and (<= 0 %s) (< %s %s)) (= (select %s (idx 0 %s)) (select %s (idx (s.off %s) %s)))))", q, q, q, ln, An, q, Aold, x, q))
	// the same fact over absolute positions of the new array (contracts that speak about positions, not indices)
	qa := c.fresh("p")
	s.assert(fmt.Sprintf("(forall ((%s Int)) (! (=> (and (<= 0 %s) (< %s %s)) (= (select %s %s) (select %s (+ (s.off %s) %s)))) :pattern ((select %s %s))))", qa, qa, qa, ln, An, qa, Aold, x, qa, An, qa))
	var Afit, Anew Term
	if k > 0 {
		Afit, Anew = Aold, An
		for j := 0; j < k; j++ {
			e := srcElem(fmt.Sprint(j))
			Afit = fmt.Sprintf("(store %s (idx (s.off %s) (+ %s %d)) %s)", Afit, x, ln, j, e)
			Anew = fmt.Sprintf("(store %s (idx 0 (+ %s %d)) %s)", Anew, ln, j, e)
		}
	} else {
		// general case: quantified description of both arrays
		Af := s.freshConst("ap_fit", "(Array Int "+es+")")
		q2 := c.fresh("j")
		s.assert(fmt.Sprintf("(forall ((%s Int)) (= (select %s %s) (ite (and (<= (+ (s.off %s) %s) %s) (< %s (+ (s.off %s) %s %s))) %s (select %s %s))))",
			q2, Af, q2, x, ln, q2, q2, x, ln, n, srcElem(fmt.Sprintf("(- %s (+ (s.off %s) %s))", q2, x, ln)), Aold, q2))
		An2 := s.freshConst("ap_new2", "(Array Int "+es+")")
		q3 := c.fresh("j")
		s.assert(fmt.Sprintf("(forall ((%s Int)) (=> (and (<= 0 %s) (< %s (+ %s %s))) (= (select %s (idx 0 %s)) (ite (< %s %s) (select %s (idx (s.off %s) %s)) %s))))",
			q3, q3, q3, ln, n, An2, q3, q3, ln, Aold, x, q3, srcElem(fmt.Sprintf("(- %s %s)", q3, ln))))
		// the same over absolute positions of the new array
		q4 := c.fresh("p")
		s.assert(fmt.Sprintf("(forall ((%s Int)) (! (=> (and (<= 0 %s) (< %s (+ %s %s))) (= (select %s %s) (ite (< %s %s) (select %s (+ (s.off %s) %s)) %s))) :pattern ((select %s %s))))",
			q4, q4, q4, ln, n, An2, q4, q4, ln, Aold, x, q4, srcElem(fmt.Sprintf("(- %s %s)", q4, ln)), An2, q4))
		Afit, Anew = Af, An2
	}
	// two paths: the append fits into the capacity (in place, visible through every alias of the backing
	// array), or a new backing array is allocated
	s2 := s.clone()
	c.n++
	s2.PathID = c.n
	s.assert(fits)
	s.setComp(cn, cs, fmt.Sprintf("(store %s (s.base %s) %s)", E, x, Afit))
	s.Frame.Vals[call] = s.name("ap_r", "Slice", fmt.Sprintf("(mk-slice (s.base %s) (s.off %s) (+ %s %s) (s.cap %s))", x, x, ln, n, x))
	s2.assert("(not " + fits + ")")
	s2.setComp(cn, cs, fmt.Sprintf("(store %s %s %s)", E, nb, Anew))
	s2.Frame.Vals[call] = s2.name("ap_r", "Slice", fmt.Sprintf("(mk-slice %s 0 (+ %s %s) %s)", nb, ln, n, ncap))
	return []*State{s2, s}, true
}

func (s *State) execCopy(call *ssa.Call, args []ssa.Value) {
	c := s.C
	dt := c.under(args[0].Type()).(*types.Slice)
	es := c.sortOf(dt.Elem())
	d := s.name("cp_d", "Slice", s.term(args[0]))
	cn, cs := c.elemComp(dt.Elem())
	E := s.comp(cn, cs)
	var n Term
	var srcElem func(j Term) Term
	if c.sortOf(args[1].Type()) == "Str" {
		y := s.term(args[1])
		n = s.name("cp_n", "Int", fmt.Sprintf("(ite (<= (s.len %s) (gs.len %s)) (s.len %s) (gs.len %s))", d, y, d, y))
		srcElem = func(j Term) Term { return fmt.Sprintf("(gs.at %s %s)", y, j) }
	} else {
		y := s.name("cp_s", "Slice", s.term(args[1]))
		n = s.name("cp_n", "Int", fmt.Sprintf("(ite (<= (s.len %s) (s.len %s)) (s.len %s) (s.len %s))", d, y, d, y))
		B := s.name("cp_B", "(Array Int "+es+")", fmt.Sprintf("(select %s (s.base %s))", E, y))
		srcElem = func(j Term) Term { return fmt.Sprintf("(select %s (idx (s.off %s) %s))", B, y, j) }
	}
	A := s.name("cp_A", "(Array Int "+es+")", fmt.Sprintf("(select %s (s.base %s))", E, d))
	An := s.freshConst("cp_new", "(Array Int "+es+")")
	q := c.fresh("j")
	s.assert(fmt.Sprintf("(forall ((%s Int)) (= (select %s %s) (ite (and (<= (s.off %s) %s) (< %s (+ (s.off %s) %s))) %s (select %s %s))))",
		q, An, q, d, q, q, d, n, srcElem(fmt.Sprintf("(- %s (s.off %s))", q, d)), A, q))
	s.setComp(cn, cs, fmt.Sprintf("(ite (= %s 0) %s (store %s (s.base %s) %s))", n, E, E, d, An))
	s.Frame.Vals[call] = n
}

// callValue starts the symbolic execution of a function value (closure or function) with the given arguments;
// onRet runs when it returns (in the caller's frame).
func (s *State) callValue(fv Value, args []Value, at ssa.Instruction, onRet func(s *State, vals []Value) ([]*State, bool)) {
	c := s.C
	var fn *ssa.Function
	var cl *Closure
	switch v := fv.(type) {
	case *FuncRef:
		fn = v.Fn
	case *Closure:
		fn, cl = v.Fn, v
	case string:
		if x, ok := closureReg[v]; ok {
			fn, cl = x.Fn, x
		}
	}
	if fn == nil || len(fn.Blocks) == 0 {
		panic(abortPath{"call of an unknown function value"})
	}
	if li := c.loopInfo(fn); li != nil && len(li.loops) > 0 {
		panic(abortPath{"function value " + fn.Name() + " has loops and cannot be inlined"})
	}
	nf := c.newFrame(fn, s.Frame)
	nf.CallIns = at
	nf.Closure = cl
	nf.Params = args
	nf.OnReturn = onRet
	nf.Spec = c.SS.specFor(fn)
	for i, p := range fn.Params {
		nf.Vals[p] = args[i]
	}
	s.Frame = nf
}

// sortSearch: sort.Search(n, f) returns some r in [0,n] with (r == n || f(r)) and (r == 0 || !f(r-1)).
// This is the invariant of the library's binary search for *every* f; "smallest index" follows for the caller
// from the monotonicity of f, which it has to derive from its own data invariants.
func (s *State) sortSearch(call *ssa.Call, args []Value) ([]*State, bool) {
	c := s.C
	c.assume("A-LIB: sort.Search(n, f) returns r in [0,n] with (r == n or f(r)) and (r == 0 or not f(r-1))")
	n := args[0].(string)
	f := args[1]
	s.safety("safe-make", call, fmt.Sprintf("(>= %s 0)", n))
	r := s.freshConst("search", "Int")
	s.assert(fmt.Sprintf("(and (<= 0 %s) (<= %s %s))", r, r, n))
	s.Frame.Vals[call] = r
	stage2 := func(s *State) ([]*State, bool) {
		s2 := s.clone()
		c.n++
		s2.PathID = c.n
		s2.assert(fmt.Sprintf("(= %s 0)", r))
		s.assert(fmt.Sprintf("(> %s 0)", r))
		s.callValue(f, []Value{fmt.Sprintf("(- %s 1)", r)}, call, func(s *State, vals []Value) ([]*State, bool) {
			s.assert("(not " + vals[0].(string) + ")")
			return nil, false
		})
		return []*State{s2, s}, true
	}
	s1 := s.clone()
	c.n++
	s1.PathID = c.n
	s1.assert(fmt.Sprintf("(= %s %s)", r, n))
	s.assert(fmt.Sprintf("(< %s %s)", r, n))
	s.callValue(f, []Value{r}, call, func(s *State, vals []Value) ([]*State, bool) {
		s.assert(vals[0].(string))
		return stage2(s)
	})
	next, _ := stage2(s1)
	return append(next, s), true
}

// sortSort: sort.Sort(x) / sort.Sort(sort.Reverse(x)) where x is a slice type whose Less method has a contract of the
// form `ensures result <==> E`: the elements are permuted and no later element is Less than an earlier one (reversed:
// no earlier element is Less than a later one). Len and Swap are taken to be the usual ones (checked: the type's
// underlying type is a slice).
func (s *State) sortSort(call *ssa.Call, cc *ssa.CallCommon) bool {
	c := s.C
	arg := cc.Args[0]
	reversed := false
	if inner, ok := arg.(*ssa.Call); ok {
		if f := inner.Call.StaticCallee(); f != nil && funcKey(f) == "sort::Reverse" && len(inner.Call.Args) == 1 {
			reversed = true
			arg = inner.Call.Args[0]
		}
	}
	mi, ok := arg.(*ssa.MakeInterface)
	if !ok {
		return false
	}
	named, ok := types.Unalias(mi.X.Type()).(*types.Named)
	if !ok {
		return false
	}
	st, ok := named.Underlying().(*types.Slice)
	if !ok {
		return false
	}
	var less *ssa.Function
	for i := 0; i < named.NumMethods(); i++ {
		if named.Method(i).Name() == "Less" {
			less = c.P.Prog.FuncValue(named.Method(i))
		}
	}
	if less == nil || len(less.Params) != 3 {
		return false
	}
	sp := c.SS.specFor(less)
	if sp == nil || len(sp.Ensures) != 1 {
		return false
	}
	bin, ok := sp.Ensures[0].E.(*EBin)
	if !ok || (bin.Op != "<==>" && bin.Op != "==") {
		return false
	}
	if id, ok := bin.X.(*EIdent); !ok || id.Name != "result" {
		return false
	}
	xs := s.term(mi.X)
	A0, A1 := s.permuteSlice(xs, st)
	_ = A0
	_ = A1
	qi, qj := c.fresh("q_i"), c.fresh("q_j")
	env := &SpecEnv{S: s, C: c, Heap: s.Heap, Cells: s.Cells, Vars: map[string]TV{}, Pkg: c.pkgOf(less), Ghost: s.Ghost}
	env.Vars[less.Params[0].Name()] = c.mkTV(xs, mi.X.Type())
	env.Vars["this"] = c.mkTV(xs, mi.X.Type())
	a, b := qj, qi // forbidden: Less(later, earlier)
	if reversed {
		a, b = qi, qj // reversed order: forbidden Less(earlier, later)
	}
	env.Vars[less.Params[1].Name()] = TV{T: a, Ty: tyInt, Sort: "Int"}
	env.Vars[less.Params[2].Name()] = TV{T: b, Ty: tyInt, Sort: "Int"}
	env.markBound(less.Params[1].Name())
	env.markBound(less.Params[2].Name())
	t, err := env.evalBool(bin.Y)
	if err != nil {
		panic(evalErr(fmt.Sprintf("%s:%d: contract of %s: %v", sp.File, sp.Line, funcKey(less), err)))
	}
	s.assert(fmt.Sprintf("(forall ((%s Int) (%s Int)) (=> (and (<= 0 %s) (< %s %s) (< %s (s.len %s))) (not %s)))", qi, qj, qi, qi, qj, qj, xs, t))
	c.assume("A-LIB: sort.Sort leaves a permutation of the elements, ordered by the type's Less as stated by the contract of " + funcKey(less) + " (Len/Swap of a slice type)")
	return true
}

// permuteSlice havocs the window of a slice and assumes that the new content is a permutation of the old one (every new
// element is an old one and vice versa; cells outside the window are unchanged). Returns the old and new backing arrays.
func (s *State) permuteSlice(xs Term, st *types.Slice) (Term, Term) {
	c := s.C
	cn, cs := c.elemComp(st.Elem())
	E := s.comp(cn, cs)
	es := c.sortOf(st.Elem())
	A0 := s.name("srt0", "(Array Int "+es+")", fmt.Sprintf("(select %s (s.base %s))", E, xs))
	A1 := s.freshConst("srt1", "(Array Int "+es+")")
	s.setComp(cn, cs, fmt.Sprintf("(store %s (s.base %s) %s)", E, xs, A1))
	lo := fmt.Sprintf("(s.off %s)", xs)
	hi := fmt.Sprintf("(+ (s.off %s) (s.len %s))", xs, xs)
	p, q := c.fresh("q_p"), c.fresh("q_q")
	if s.topFrame().Spec != nil && s.topFrame().Spec.NoSafety["sortfacts-index"] {
		// the same two facts over indices (idx(off, i)), for contracts that speak about x[i]
		i, j := c.fresh("q_i"), c.fresh("q_j")
		n := fmt.Sprintf("(s.len %s)", xs)
		s.assert(fmt.Sprintf("(forall ((%s Int)) (! (=> (and (<= 0 %s) (< %s %s)) (exists ((%s Int)) (and (<= 0 %s) (< %s %s) (= (select %s (idx %s %s)) (select %s (idx %s %s)))))) :pattern ((select %s (idx %s %s)))))", i, i, i, n, j, j, j, n, A1, lo, i, A0, lo, j, A1, lo, i))
		s.assert(fmt.Sprintf("(forall ((%s Int)) (! (=> (and (<= 0 %s) (< %s %s)) (exists ((%s Int)) (and (<= 0 %s) (< %s %s) (= (select %s (idx %s %s)) (select %s (idx %s %s)))))) :pattern ((select %s (idx %s %s)))))", j, j, j, n, i, i, i, n, A1, lo, i, A0, lo, j, A0, lo, j))
	} else {
		s.assert(fmt.Sprintf("(forall ((%s Int)) (! (=> (and (<= %s %s) (< %s %s)) (exists ((%s Int)) (and (<= %s %s) (< %s %s) (= (select %s %s) (select %s %s))))) :pattern ((select %s %s))))", p, lo, p, p, hi, q, lo, q, q, hi, A1, p, A0, q, A1, p))
		s.assert(fmt.Sprintf("(forall ((%s Int)) (! (=> (and (<= %s %s) (< %s %s)) (exists ((%s Int)) (and (<= %s %s) (< %s %s) (= (select %s %s) (select %s %s))))) :pattern ((select %s %s))))", q, lo, q, q, hi, p, lo, p, p, hi, A1, p, A0, q, A0, q))
	}
	s.assert(fmt.Sprintf("(forall ((%s Int)) (! (=> (not (and (<= %s %s) (< %s %s))) (= (select %s %s) (select %s %s))) :pattern ((select %s %s))))", p, lo, p, p, hi, A1, p, A0, p, A1, p))
	return A0, A1
}

// sortSlice: sort.Slice(x, less) where less is a closure with a contract of the form `ensures result <==> E`.
// Afterwards the elements of x are a permutation of the old ones and no later element is less than an earlier one,
// with "less" read from the closure's contract (which is verified separately against the closure's body).
func (s *State) sortSlice(call *ssa.Call, cc *ssa.CallCommon, args []Value) bool {
	c := s.C
	mi, ok := cc.Args[0].(*ssa.MakeInterface)
	if !ok {
		return false
	}
	st, ok := c.under(mi.X.Type()).(*types.Slice)
	if !ok {
		return false
	}
	var cl *Closure
	switch v := args[1].(type) {
	case *Closure:
		cl = v
	case string:
		cl = closureReg[v]
	}
	if cl == nil || len(cl.Fn.Params) != 2 {
		return false
	}
	sp := c.SS.specFor(cl.Fn)
	if sp == nil || len(sp.Ensures) != 1 {
		return false
	}
	bin, ok := sp.Ensures[0].E.(*EBin)
	if !ok || (bin.Op != "<==>" && bin.Op != "==") {
		return false
	}
	if id, ok := bin.X.(*EIdent); !ok || id.Name != "result" {
		return false
	}
	xs := s.term(mi.X)
	cn, cs := c.elemComp(st.Elem())
	E := s.comp(cn, cs)
	es := c.sortOf(st.Elem())
	A0 := s.name("srt0", "(Array Int "+es+")", fmt.Sprintf("(select %s (s.base %s))", E, xs))
	A1 := s.freshConst("srt1", "(Array Int "+es+")")
	s.setComp(cn, cs, fmt.Sprintf("(store %s (s.base %s) %s)", E, xs, A1))
	lo := fmt.Sprintf("(s.off %s)", xs)
	hi := fmt.Sprintf("(+ (s.off %s) (s.len %s))", xs, xs)
	p, q := c.fresh("q_p"), c.fresh("q_q")
	s.assert(fmt.Sprintf("(forall ((%s Int)) (! (=> (and (<= %s %s) (< %s %s)) (exists ((%s Int)) (and (<= %s %s) (< %s %s) (= (select %s %s) (select %s %s))))) :pattern ((select %s %s))))", p, lo, p, p, hi, q, lo, q, q, hi, A1, p, A0, q, A1, p))
	s.assert(fmt.Sprintf("(forall ((%s Int)) (! (=> (and (<= %s %s) (< %s %s)) (exists ((%s Int)) (and (<= %s %s) (< %s %s) (= (select %s %s) (select %s %s))))) :pattern ((select %s %s))))", q, lo, q, q, hi, p, lo, p, p, hi, A1, p, A0, q, A0, q))
	s.assert(fmt.Sprintf("(forall ((%s Int)) (! (=> (not (and (<= %s %s) (< %s %s))) (= (select %s %s) (select %s %s))) :pattern ((select %s %s))))", p, lo, p, p, hi, A1, p, A0, p, A1, p))
	// sortedness: for i < j not less(j, i)
	qi, qj := c.fresh("q_i"), c.fresh("q_j")
	env := &SpecEnv{S: s, C: c, Heap: s.Heap, Cells: s.Cells, Vars: map[string]TV{}, Pkg: c.pkgOf(cl.Fn), Ghost: s.Ghost}
	env.Vars[cl.Fn.Params[0].Name()] = TV{T: qj, Ty: tyInt, Sort: "Int"}
	env.Vars[cl.Fn.Params[1].Name()] = TV{T: qi, Ty: tyInt, Sort: "Int"}
	env.markBound(cl.Fn.Params[0].Name())
	env.markBound(cl.Fn.Params[1].Name())
	for k, fv := range cl.Fn.FreeVars {
		if k >= len(cl.Bindings) {
			return false
		}
		if l, ok := cl.Bindings[k].(*Loc); ok {
			t, ty := s.load(l)
			env.Vars[fv.Name()] = c.mkTV(t, ty)
		}
	}
	t, err := env.evalBool(bin.Y)
	if err != nil {
		panic(evalErr(fmt.Sprintf("%s:%d: comparator contract of %s: %v", sp.File, sp.Line, funcKey(cl.Fn), err)))
	}
	s.assert(fmt.Sprintf("(forall ((%s Int) (%s Int)) (=> (and (<= 0 %s) (< %s %s) (< %s (s.len %s))) (not %s)))", qi, qj, qi, qi, qj, qj, xs, t))
	c.assume("A-LIB: sort.Slice leaves a permutation of the elements in which no later element is less than an earlier one, `less` as stated by the contract of " + funcKey(cl.Fn))
	return true
}

// inlinable: only code of the repository itself (and closures defined in it) is ever inlined; library code is
// represented by contracts (lib/*.spec), the pure-call list, or treated as unknown.
func (c *Ctx) inlinable(fn *ssa.Function) bool {
	p := c.pkgOf(fn)
	return p != nil && (p.Path() == modPath || strings.HasPrefix(p.Path(), modPath+"/"))
}

// ghostNames: every ghost variable declared by some contract.
func (c *Ctx) ghostNames() map[string]bool {
	if c.allGhosts != nil {
		return c.allGhosts
	}
	c.allGhosts = map[string]bool{}
	for _, g := range c.SS.GlobalGhosts {
		c.allGhosts[g.Name] = true
	}
	for _, sp := range c.SS.Funcs {
		for _, g := range sp.GhostVars {
			c.allGhosts[g.Name] = true
		}
	}
	return c.allGhosts
}

func (c *Ctx) isForeignGhost(name string, s *State) bool {
	if _, here := s.Ghost[name]; here {
		return false
	}
	return c.ghostNames()[name]
}

func (c *Ctx) mentionsForeignGhost(src string) bool {
	for g := range c.ghostNames() {
		if strings.Contains(src, g) {
			if c.isGlobalGhost(g) {
				continue
			}
			if _, here := c.Spec.ghostDeclared()[g]; !here {
				return true
			}
		}
	}
	return false
}

func (sp *FuncSpec) ghostDeclared() map[string]bool {
	m := map[string]bool{}
	for _, g := range sp.GhostVars {
		m[g.Name] = true
	}
	return m
}

func (c *Ctx) isGlobalGhost(name string) bool {
	for _, g := range c.SS.GlobalGhosts {
		if g.Name == name {
			return true
		}
	}
	return false
}

func short0(name string) string {
	if j := strings.Index(name, "::"); j >= 0 {
		return name[j+2:]
	}
	return name
}

// runGhostAfter runs the ghost statements anchored after a call; they see the call's results as ret (single result)
// or ret0, ret1, ...
func (s *State) runGhostAfter(fr *Frame, call *ssa.Call, anchor string) {
	if fr.Spec == nil || fr.Caller != nil {
		return
	}
	extra := map[string]TV{}
	for i, a := range call.Call.Args {
		func() {
			defer func() { recover() }()
			extra[fmt.Sprintf("carg%d", i)] = s.valueTV(s.get(a), a.Type())
		}()
	}
	if v, ok := fr.Vals[call]; ok && v != nil {
		if tup, ok := callResultType(call).(*types.Tuple); ok {
			if tv, ok := v.(*Tuple); ok {
				for i := 0; i < tup.Len() && i < len(tv.Vals); i++ {
					extra[fmt.Sprintf("ret%d", i)] = s.valueTV(tv.Vals[i], tup.At(i).Type())
				}
			}
		} else {
			t := s.valueTV(v, callResultType(call))
			extra["ret"] = t
			extra["ret0"] = t
		}
	}
	s.ghostExtra = extra
	s.runGhost(fr, anchor)
	s.ghostExtra = nil
}

// wVerbArgs: the operand indexes of the %w verbs of a constant format string; ok=false when the format uses explicit
// argument indexes or * widths (operand numbering then needs more than counting verbs).
func wVerbArgs(format string) (ws []int, ok bool) {
	arg := 0
	for i := 0; i < len(format); i++ {
		if format[i] != '%' {
			continue
		}
		i++
		if i >= len(format) {
			break
		}
		if format[i] == '%' {
			continue
		}
		for i < len(format) && strings.IndexByte("+-# 0123456789.", format[i]) >= 0 {
			i++
		}
		if i >= len(format) {
			break
		}
		if format[i] == '[' || format[i] == '*' {
			return nil, false
		}
		if format[i] == 'w' {
			ws = append(ws, arg)
		}
		arg++
	}
	return ws, true
}

// fmtErrorf: fmt.Errorf with a constant format. The result is a new non-nil error that wraps exactly itself and what
// its %w operands wrap (err.wraps is what errors.Is answers; A-LIB).
func (s *State) fmtErrorf(call *ssa.Call, cc *ssa.CallCommon, args []Value) bool {
	c := s.C
	k, ok := cc.Args[0].(*ssa.Const)
	if !ok || k.Value == nil || k.Value.Kind() != constant.String {
		return false
	}
	ws, ok := wVerbArgs(constant.StringVal(k.Value))
	if !ok || len(args) < 2 {
		return false
	}
	st, ok := c.under(cc.Args[1].Type()).(*types.Slice)
	if !ok {
		return false
	}
	va, ok := args[1].(string)
	if !ok {
		return false
	}
	c.usesErrWraps = true
	c.assume("A-LIB: fmt.Errorf returns a new non-nil error that wraps (errors.Is) itself and exactly what its %w operands wrap")
	r := s.freshConst("errorf", "Iface")
	s.assert(fmt.Sprintf("(not (= (i.tag %s) 0))", r))
	cn, cs := c.elemComp(st.Elem())
	E := s.comp(cn, cs)
	parts := []string{fmt.Sprintf("(= t!w %s)", r)}
	for _, w := range ws {
		a := s.name("errarg", "Iface", fmt.Sprintf("(select (select %s (s.base %s)) (idx (s.off %s) %d))", E, va, va, w))
		parts = append(parts, fmt.Sprintf("(and (not (= (i.tag %s) 0)) (err.wraps %s t!w))", a, a))
	}
	s.assert(fmt.Sprintf("(forall ((t!w Iface)) (! (= (err.wraps %s t!w) (or %s)) :pattern ((err.wraps %s t!w))))", r, strings.Join(parts, " "), r))
	s.Frame.Vals[call] = r
	return true
}

// splitConj: the top-level conjuncts of a specification expression.
func splitConj(e Expr) []Expr {
	if b, ok := e.(*EBin); ok && b.Op == "&&" {
		return append(splitConj(b.X), splitConj(b.Y)...)
	}
	return []Expr{e}
}

func (s *State) topFrame() *Frame {
	fr := s.Frame
	for fr.Caller != nil {
		fr = fr.Caller
	}
	return fr
}

// callResultType: the type of a call's value. A call instruction synthesised by the engine (the deferred calls run at
// RunDefers, the goroutines of a gosequential function) has no type of its own; it is taken from the callee's signature.
func callResultType(call *ssa.Call) types.Type {
	if t := call.Type(); t != nil {
		return t
	}
	res := call.Call.Signature().Results()
	if res.Len() == 1 {
		return res.At(0).Type()
	}
	return res
}
