package main

import "strings"

// Minimal S-expression tree for post-processing SMT commands.
type sx struct {
	atom string
	list []*sx
	isL  bool
}

func parseSx(s string) []*sx {
	var out []*sx
	pos := 0
	for {
		n, p := readSx(s, pos)
		if n == nil {
			return out
		}
		out = append(out, n)
		pos = p
	}
}

func readSx(s string, pos int) (*sx, int) {
	for pos < len(s) && (s[pos] == ' ' || s[pos] == '\n' || s[pos] == '\t' || s[pos] == '\r') {
		pos++
	}
	if pos >= len(s) {
		return nil, pos
	}
	if s[pos] == ')' {
		return nil, pos
	}
	if s[pos] == '(' {
		n := &sx{isL: true}
		pos++
		for {
			c, p := readSx(s, pos)
			if c == nil {
				pos = p
				break
			}
			n.list = append(n.list, c)
			pos = p
		}
		if pos < len(s) && s[pos] == ')' {
			pos++
		}
		return n, pos
	}
	if s[pos] == '|' {
		e := strings.Index(s[pos+1:], "|")
		if e >= 0 {
			return &sx{atom: s[pos : pos+e+2]}, pos + e + 2
		}
	}
	if s[pos] == '"' {
		e := strings.Index(s[pos+1:], "\"")
		if e >= 0 {
			return &sx{atom: s[pos : pos+e+2]}, pos + e + 2
		}
	}
	e := pos
	for e < len(s) && s[e] != ' ' && s[e] != '\n' && s[e] != '\t' && s[e] != '\r' && s[e] != '(' && s[e] != ')' {
		e++
	}
	return &sx{atom: s[pos:e]}, e
}

func (n *sx) String() string {
	if !n.isL {
		return n.atom
	}
	var sb strings.Builder
	n.write(&sb)
	return sb.String()
}

func (n *sx) write(sb *strings.Builder) {
	if !n.isL {
		sb.WriteString(n.atom)
		return
	}
	sb.WriteByte('(')
	for i, c := range n.list {
		if i > 0 {
			sb.WriteByte(' ')
		}
		c.write(sb)
	}
	sb.WriteByte(')')
}

func (n *sx) head() string {
	if n.isL && len(n.list) > 0 && !n.list[0].isL {
		return n.list[0].atom
	}
	return ""
}

func (n *sx) subst(m map[string]string) *sx {
	if !n.isL {
		if r, ok := m[n.atom]; ok {
			return &sx{atom: r}
		}
		return n
	}
	out := &sx{isL: true}
	for _, c := range n.list {
		out.list = append(out.list, c.subst(m))
	}
	return out
}

// instQuant replaces quantifiers by finitely many instances (forall) or by `true` (exists): a relaxation used
// only to search for candidate models.
func instQuant(n *sx, terms map[string][]string, budget *int) *sx {
	if !n.isL {
		return n
	}
	switch n.head() {
	case "forall":
		if len(n.list) != 3 {
			return &sx{atom: "true"}
		}
		body := n.list[2]
		if body.head() == "!" && len(body.list) >= 2 {
			body = body.list[1]
		}
		type bv struct{ name, sort string }
		var vars []bv
		for _, b := range n.list[1].list {
			if len(b.list) == 2 {
				vars = append(vars, bv{b.list[0].String(), b.list[1].String()})
			}
		}
		insts := []map[string]string{{}}
		for _, v := range vars {
			ts := terms[v.sort]
			if len(ts) == 0 {
				return &sx{atom: "true"}
			}
			var next []map[string]string
			for _, m := range insts {
				for _, t := range ts {
					m2 := map[string]string{}
					for k, x := range m {
						m2[k] = x
					}
					m2[v.name] = t
					next = append(next, m2)
					if len(next) > 40 {
						break
					}
				}
				if len(next) > 40 {
					break
				}
			}
			insts = next
		}
		out := &sx{isL: true, list: []*sx{{atom: "and"}, {atom: "true"}}}
		for _, m := range insts {
			if *budget <= 0 {
				break
			}
			*budget--
			out.list = append(out.list, instQuant(body.subst(m), terms, budget))
		}
		return out
	case "exists":
		return &sx{atom: "true"}
	}
	out := &sx{isL: true}
	for _, c := range n.list {
		out.list = append(out.list, instQuant(c, terms, budget))
	}
	return out
}
