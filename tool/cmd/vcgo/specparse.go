package main

import (
	"fmt"

	"golang.org/x/tools/go/ssa"
	"os"
	"strings"
	"unicode"
)

// ---------------------------------------------------------------------------
// Contract language: expressions
// ---------------------------------------------------------------------------

type Expr interface{}

type (
	EIdent struct{ Name string }
	EInt   struct{ V string }
	EBool  struct{ V bool }
	EStr   struct{ V string }
	ENil   struct{}
	EUn    struct {
		Op string
		X  Expr
	}
	EBin struct {
		Op   string
		X, Y Expr
	}
	ECond  struct{ C, A, B Expr }
	EQuant struct {
		Forall bool
		Mapof  bool // mapof x T :: e  - the map (Array sort(T) sort(e)) that sends every x to e, in the current state
		Vars   []QVar
		Body   Expr
		Pats   []Expr // optional trigger (one multi-pattern)
	}
	ECall struct {
		Fun  string
		Args []Expr
	}
	ESel struct {
		X    Expr
		Name string
	}
	EIndex struct{ X, I Expr }
	ESlice struct{ X, Lo, Hi Expr }
	EOld   struct{ X Expr }
	ELet   struct {
		Name string
		Val  Expr
		Body Expr
	}
)

type QVar struct {
	Name string
	Type string // type expression text
}

type tok struct {
	k string // "id","int","str","op","eof"
	s string
}

func lexSpec(src string) ([]tok, error) {
	var out []tok
	i := 0
	for i < len(src) {
		c := src[i]
		switch {
		case c == ' ' || c == '\t' || c == '\n' || c == '\r':
			i++
		case unicode.IsLetter(rune(c)) || c == '_' || c == '$':
			j := i
			for j < len(src) && (unicode.IsLetter(rune(src[j])) || unicode.IsDigit(rune(src[j])) || src[j] == '_' || src[j] == '$' || src[j] == '#') {
				j++
			}
			out = append(out, tok{"id", src[i:j]})
			i = j
		case c >= '0' && c <= '9':
			j := i
			for j < len(src) && (unicode.IsDigit(rune(src[j])) || unicode.IsLetter(rune(src[j])) || src[j] == '_') {
				j++
			}
			out = append(out, tok{"int", strings.ReplaceAll(src[i:j], "_", "")})
			i = j
		case c == '"':
			j := i + 1
			var sb strings.Builder
			for j < len(src) && src[j] != '"' {
				if src[j] == '\\' && j+1 < len(src) {
					j++
					switch src[j] {
					case 'n':
						sb.WriteByte('\n')
					case 't':
						sb.WriteByte('\t')
					default:
						sb.WriteByte(src[j])
					}
				} else {
					sb.WriteByte(src[j])
				}
				j++
			}
			if j >= len(src) {
				return nil, fmt.Errorf("unterminated string")
			}
			out = append(out, tok{"str", sb.String()})
			i = j + 1
		case c == '\'':
			if i+2 < len(src) && src[i+2] == '\'' {
				out = append(out, tok{"int", fmt.Sprint(int(src[i+1]))})
				i += 3
			} else {
				return nil, fmt.Errorf("bad char literal at %d", i)
			}
		default:
			ops := []string{"<==>", "==>", "::", "==", "!=", "<=", ">=", "&&", "||", "<<", ">>", "&^", "+", "-", "*", "/", "%", "<", ">", "!", "(", ")", "[", "]", ",", ".", ":", "?", "&", "|", "^", "{", "}"}
			matched := false
			for _, op := range ops {
				if strings.HasPrefix(src[i:], op) {
					out = append(out, tok{"op", op})
					i += len(op)
					matched = true
					break
				}
			}
			if !matched {
				return nil, fmt.Errorf("unexpected character %q at %d in %q", c, i, src)
			}
		}
	}
	out = append(out, tok{"eof", ""})
	return out, nil
}

type sparser struct {
	toks []tok
	p    int
	src  string
}

func parseSpecExpr(src string) (e Expr, err error) {
	toks, err := lexSpec(src)
	if err != nil {
		return nil, err
	}
	ps := &sparser{toks: toks, src: src}
	defer func() {
		if r := recover(); r != nil {
			if s, ok := r.(specErr); ok {
				err = fmt.Errorf("%s in %q", string(s), src)
				return
			}
			panic(r)
		}
	}()
	e = ps.expr()
	if ps.cur().k != "eof" {
		ps.fail("trailing input at token %q", ps.cur().s)
	}
	return e, nil
}

type specErr string

func (ps *sparser) fail(f string, a ...interface{}) { panic(specErr(fmt.Sprintf(f, a...))) }
func (ps *sparser) cur() tok                        { return ps.toks[ps.p] }
func (ps *sparser) peek(n int) tok {
	if ps.p+n < len(ps.toks) {
		return ps.toks[ps.p+n]
	}
	return tok{"eof", ""}
}
func (ps *sparser) isOp(s string) bool { return ps.cur().k == "op" && ps.cur().s == s }
func (ps *sparser) isID(s string) bool { return ps.cur().k == "id" && ps.cur().s == s }
func (ps *sparser) eat(s string) {
	if !ps.isOp(s) {
		ps.fail("expected %q, got %q", s, ps.cur().s)
	}
	ps.p++
}

func (ps *sparser) expr() Expr {
	if ps.isID("forall") || ps.isID("exists") || ps.isID("mapof") {
		return ps.quant()
	}
	if ps.isID("let") {
		ps.p++
		name := ps.cur().s
		ps.p++
		ps.eat("==")
		v := ps.expr1()
		if !ps.isID("in") {
			ps.fail("expected 'in' after let binding")
		}
		ps.p++
		body := ps.expr()
		return &ELet{name, v, body}
	}
	c := ps.expr1()
	if ps.isOp("?") {
		ps.p++
		a := ps.expr()
		ps.eat(":")
		b := ps.expr()
		return &ECond{c, a, b}
	}
	return c
}

func (ps *sparser) quant() Expr {
	q := &EQuant{Forall: ps.cur().s == "forall", Mapof: ps.cur().s == "mapof"}
	ps.p++
	for {
		// names: a, b T
		var names []string
		for {
			if ps.cur().k != "id" {
				ps.fail("expected bound variable name")
			}
			names = append(names, ps.cur().s)
			ps.p++
			if ps.isOp(",") && ps.peek(1).k == "id" && (ps.peek(2).k == "op" && ps.peek(2).s == "," || ps.peek(2).k == "id" || ps.peek(2).k == "op" && (ps.peek(2).s == "[" || ps.peek(2).s == "*" || ps.peek(2).s == ".")) {
				// could be "a, b T" – decide: if after next id comes a type start or comma, continue names
				ps.p++
				continue
			}
			break
		}
		ty := ps.typeText()
		for _, n := range names {
			q.Vars = append(q.Vars, QVar{n, ty})
		}
		if ps.isOp(",") {
			ps.p++
			continue
		}
		break
	}
	// optional triggers: { e1, e2 } (one multi-pattern)
	if ps.isOp("{") {
		ps.p++
		for {
			q.Pats = append(q.Pats, ps.expr1())
			if ps.isOp(",") {
				ps.p++
				continue
			}
			break
		}
		ps.eat("}")
	}
	ps.eat("::")
	q.Body = ps.expr()
	return q
}

// typeText reads a type expression and returns its text.
func (ps *sparser) typeText() string {
	var sb strings.Builder
	for {
		switch {
		case ps.isOp("*"):
			sb.WriteString("*")
			ps.p++
			continue
		case ps.isOp("["):
			ps.p++
			if ps.isOp("]") {
				ps.p++
				sb.WriteString("[]")
				continue
			}
			// [N]T
			sb.WriteString("[" + ps.cur().s + "]")
			ps.p++
			ps.eat("]")
			continue
		}
		break
	}
	if ps.cur().k != "id" {
		ps.fail("expected type name, got %q", ps.cur().s)
	}
	name := ps.cur().s
	ps.p++
	sb.WriteString(name)
	if (name == "set" || name == "seq" || name == "map") && ps.isOp("[") {
		ps.p++
		sb.WriteString("[" + ps.typeText() + "]")
		ps.eat("]")
		if name == "map" {
			sb.WriteString(ps.typeText())
		}
		return sb.String()
	}
	for ps.isOp(".") && ps.peek(1).k == "id" {
		ps.p++
		sb.WriteString("." + ps.cur().s)
		ps.p++
	}
	return sb.String()
}

func (ps *sparser) expr1() Expr { // <==>
	x := ps.exprImp()
	for ps.isOp("<==>") {
		ps.p++
		y := ps.exprImp()
		x = &EBin{"<==>", x, y}
	}
	return x
}

func (ps *sparser) exprImp() Expr { // ==> right assoc
	x := ps.exprOr()
	if ps.isOp("==>") {
		ps.p++
		var y Expr
		if ps.isID("forall") || ps.isID("exists") {
			y = ps.quant()
		} else {
			y = ps.exprImp()
		}
		return &EBin{"==>", x, y}
	}
	return x
}

func (ps *sparser) exprOr() Expr {
	x := ps.exprAnd()
	for ps.isOp("||") {
		ps.p++
		var y Expr
		if ps.isID("forall") || ps.isID("exists") {
			y = ps.quant()
		} else {
			y = ps.exprAnd()
		}
		x = &EBin{"||", x, y}
	}
	return x
}

func (ps *sparser) exprAnd() Expr {
	x := ps.exprCmp()
	for ps.isOp("&&") {
		ps.p++
		var y Expr
		if ps.isID("forall") || ps.isID("exists") {
			y = ps.quant()
		} else {
			y = ps.exprCmp()
		}
		x = &EBin{"&&", x, y}
	}
	return x
}

func (ps *sparser) exprCmp() Expr {
	x := ps.exprAdd()
	for {
		if ps.cur().k == "op" {
			switch ps.cur().s {
			case "==", "!=", "<", "<=", ">", ">=":
				op := ps.cur().s
				ps.p++
				y := ps.exprAdd()
				x = &EBin{op, x, y}
				continue
			}
		}
		if ps.isID("in") {
			ps.p++
			y := ps.exprAdd()
			x = &EBin{"in", x, y}
			continue
		}
		break
	}
	return x
}

func (ps *sparser) exprAdd() Expr {
	x := ps.exprMul()
	for ps.cur().k == "op" && (ps.cur().s == "+" || ps.cur().s == "-" || ps.cur().s == "|" || ps.cur().s == "^") {
		op := ps.cur().s
		ps.p++
		y := ps.exprMul()
		x = &EBin{op, x, y}
	}
	return x
}

func (ps *sparser) exprMul() Expr {
	x := ps.exprUn()
	for ps.cur().k == "op" && (ps.cur().s == "*" || ps.cur().s == "/" || ps.cur().s == "%" || ps.cur().s == "&" || ps.cur().s == "<<" || ps.cur().s == ">>" || ps.cur().s == "&^") {
		op := ps.cur().s
		ps.p++
		y := ps.exprUn()
		x = &EBin{op, x, y}
	}
	return x
}

func (ps *sparser) exprUn() Expr {
	if ps.isOp("!") {
		ps.p++
		return &EUn{"!", ps.exprUn()}
	}
	if ps.isOp("-") {
		ps.p++
		return &EUn{"-", ps.exprUn()}
	}
	if ps.isOp("*") { // explicit deref
		ps.p++
		return &EUn{"*", ps.exprUn()}
	}
	if ps.isOp("&") { // address of a field
		ps.p++
		return &EUn{"&", ps.exprUn()}
	}
	return ps.postfix()
}

func (ps *sparser) postfix() Expr {
	x := ps.primary()
	for {
		switch {
		case ps.isOp("."):
			ps.p++
			if ps.cur().k != "id" {
				ps.fail("expected field name after '.'")
			}
			name := ps.cur().s
			ps.p++
			x = &ESel{x, name}
		case ps.isOp("["):
			ps.p++
			var lo, hi Expr
			if ps.isOp(":") {
				ps.p++
				if !ps.isOp("]") {
					hi = ps.expr()
				}
				ps.eat("]")
				x = &ESlice{x, nil, hi}
				continue
			}
			lo = ps.expr()
			if ps.isOp(":") {
				ps.p++
				if !ps.isOp("]") {
					hi = ps.expr()
				}
				ps.eat("]")
				x = &ESlice{x, lo, hi}
				continue
			}
			ps.eat("]")
			x = &EIndex{x, lo}
		case ps.isOp("("):
			// call: x must be identifier or pkg.ident
			name := ""
			switch f := x.(type) {
			case *EIdent:
				name = f.Name
			case *ESel:
				if id, ok := f.X.(*EIdent); ok {
					name = id.Name + "." + f.Name
				}
			}
			if name == "" {
				ps.fail("call of non-identifier")
			}
			ps.p++
			var args []Expr
			for !ps.isOp(")") {
				args = append(args, ps.expr())
				if ps.isOp(",") {
					ps.p++
				} else if !ps.isOp(")") {
					ps.fail("expected , or ) in call, got %q", ps.cur().s)
				}
			}
			ps.eat(")")
			if name == "old" {
				if len(args) != 1 {
					ps.fail("old takes one argument")
				}
				x = &EOld{args[0]}
			} else {
				x = &ECall{name, args}
			}
		default:
			return x
		}
	}
}

func (ps *sparser) primary() Expr {
	t := ps.cur()
	switch t.k {
	case "int":
		ps.p++
		return &EInt{t.s}
	case "str":
		ps.p++
		return &EStr{t.s}
	case "id":
		ps.p++
		switch t.s {
		case "true":
			return &EBool{true}
		case "false":
			return &EBool{false}
		case "nil":
			return &ENil{}
		case "forall", "exists", "mapof":
			ps.p--
			return ps.quant()
		}
		return &EIdent{t.s}
	case "op":
		if t.s == "(" {
			ps.p++
			e := ps.expr()
			ps.eat(")")
			return e
		}
	}
	ps.fail("unexpected token %q", t.s)
	return nil
}

// ---------------------------------------------------------------------------
// Contract files
// ---------------------------------------------------------------------------

type Clause struct {
	Kind string // requires, ensures, invariant, decreases, assert, assume ...
	Src  string
	E    Expr
	File string
	Line int
	Name string // optional label
}

type LoopSpec struct {
	Ordinal    int
	Invariants []*Clause
	Decreases  *Clause
	Modifies   []string
	Unrolled   bool
	Abstract   bool   // the loop body is not verified (cut and havocked only); reported as an assumption
	AbstractWhy string
	Shallow     bool // abstract, but the body is explored for its ghost asserts
}

// GhostStmt is a ghost statement anchored at a structural point of the function.
type GhostStmt struct {
	Anchor string // "entry", "return", "after CALLEE#k", "before CALLEE#k", "loop K head", "loop K end"
	Kind   string // "set" | "assert" | "assume" | "emit"
	Var    string
	Src    string
	E      Expr
	Line   int
	File   string
}

type FuncSpec struct {
	Pkg, Name  string
	File       string
	Line       int
	Requires   []*Clause
	Ensures    []*Clause
	Modifies   []string // location expressions (text)
	ModExprs   []Expr
	Loops      map[int]*LoopSpec
	Arith      string // "", "checked", "wrap"
	Trusted    bool   // contract assumed, body not verified (listed as assumption)
	Inline     bool
	Pure       bool
	NoSafety   map[string]bool // safety kinds to skip (listed)
	Forbids    []string        // `forbids K`: neither this function nor what it inlines calls a function whose key starts with K; contract callees must forbid it too
	Ghost      []*GhostStmt
	GhostVars  []QVar
	Uses       []string // lemmas / axioms pulled in
	Notes      []string
	HasBody    bool // any requires/ensures present
	Implements string
	CallSpecs  map[string]string // callee value name -> funcspec name
	Unroll     int
	ChanInvs     map[string]*Clause // `chaninv T : P(v)`: every value sent on a channel of element type T satisfies P; every received one is assumed to
	GoSequential bool // `gosequential`: go statements are executed as calls at the spawn point (A-CONC-FJ)
}

type DefineSpec struct {
	Name   string
	Params []QVar
	Result string
	Body   Expr
	Src    string
	File   string
	Line   int
	Pkg    string
}

type AxiomSpec struct {
	Name    string
	Src     string
	E       Expr
	IsLemma bool
	Uses    []string
	File    string
	Line    int
	Pkg     string
}

type TypeSpec struct {
	Pkg, Name  string
	Invariants []*Clause
}

type MethodSpec = FuncSpec

type IfaceSpec struct {
	Pkg, Name string
	Methods   map[string]*FuncSpec
}

type SpecSet struct {
	Funcs   map[string]*FuncSpec // key pkg::name
	Defines map[string]*DefineSpec
	Axioms  map[string]*AxiomSpec
	Smt     []string // raw prelude lines (in order)
	SmtBy   map[string][]string
	Types   map[string]*TypeSpec
	Ifaces  map[string]*IfaceSpec
	Order   []string
	GlobalGhosts []QVar
}

func newSpecSet() *SpecSet {
	return &SpecSet{Funcs: map[string]*FuncSpec{}, Defines: map[string]*DefineSpec{}, Axioms: map[string]*AxiomSpec{}, Types: map[string]*TypeSpec{}, Ifaces: map[string]*IfaceSpec{}, SmtBy: map[string][]string{}}
}

var specKeywords = map[string]bool{
	"func": true, "requires": true, "ensures": true, "modifies": true, "loop": true, "arith": true, "define": true,
	"smt": true, "axiom": true, "lemma": true, "type": true, "interface": true, "method": true, "funcspec": true,
	"ghost": true, "at": true, "use": true, "trusted": true, "inline": true, "invariant": true, "note": true,
	"pure": true, "gosequential": true, "chaninv": true, "forbids": true, "nosafety": true, "implements": true, "callspec": true, "package": true, "unroll": true,
}

// loadSpecFile parses one contract file. pkg is the default package key ("" for lib files, which
// must then name functions with a full "pkg::" prefix via `package` directives).
func (ss *SpecSet) loadSpecFile(path, pkg string) error {
	data, err := os.ReadFile(path)
	if err != nil {
		return err
	}
	lines := strings.Split(string(data), "\n")
	// join continuation lines
	type ln struct {
		s string
		n int
	}
	var items []ln
	for i, l := range lines {
		t := strings.TrimSpace(l)
		var body string
		if strings.HasPrefix(t, "//@") {
			body = strings.TrimSpace(strings.TrimPrefix(t, "//@"))
		} else if strings.HasSuffix(path, ".spec") {
			if strings.HasPrefix(t, "//") || strings.HasPrefix(t, "#") {
				continue
			}
			body = t
		} else {
			continue
		}
		if body == "" {
			continue
		}
		if j := strings.Index(body, " //"); j >= 0 && !strings.HasPrefix(body, "smt ") {
			body = strings.TrimSpace(body[:j])
		}
		first := body
		if j := strings.IndexAny(body, " \t("); j >= 0 {
			first = body[:j]
		}
		if specKeywords[first] || len(items) == 0 {
			items = append(items, ln{body, i + 1})
		} else {
			items[len(items)-1].s += " " + body
		}
	}
	var curF *FuncSpec
	var curA *AxiomSpec
	var curT *TypeSpec
	var curI *IfaceSpec
	mk := func(kind, src string, line int) (*Clause, error) {
		e, err := parseSpecExpr(src)
		if err != nil {
			return nil, fmt.Errorf("%s:%d: %v", path, line, err)
		}
		return &Clause{Kind: kind, Src: src, E: e, File: path, Line: line}, nil
	}
	for _, it := range items {
		word, rest := it.s, ""
		if j := strings.IndexAny(it.s, " \t"); j >= 0 {
			word, rest = it.s[:j], strings.TrimSpace(it.s[j+1:])
		}
		switch word {
		case "package":
			pkg = rest
			curF, curA, curT, curI = nil, nil, nil, nil
		case "func":
			curT, curI = nil, nil
			name := rest
			p := pkg
			if j := strings.Index(name, "::"); j >= 0 {
				p, name = name[:j], name[j+2:]
			}
			curA = nil
			curF = &FuncSpec{Pkg: p, Name: name, File: path, Line: it.n, Loops: map[int]*LoopSpec{}, NoSafety: map[string]bool{}, CallSpecs: map[string]string{}}
			key := p + "::" + name
			if _, dup := ss.Funcs[key]; dup {
				return fmt.Errorf("%s:%d: duplicate contract for %s", path, it.n, key)
			}
			ss.Funcs[key] = curF
			ss.Order = append(ss.Order, key)
		case "method":
			if curI == nil {
				return fmt.Errorf("%s:%d: method outside interface", path, it.n)
			}
			curF = &FuncSpec{Pkg: pkg, Name: curI.Name + "." + rest, File: path, Line: it.n, Loops: map[int]*LoopSpec{}, NoSafety: map[string]bool{}, CallSpecs: map[string]string{}}
			curI.Methods[rest] = curF
		case "interface":
			curF, curT = nil, nil
			curI = &IfaceSpec{Pkg: pkg, Name: rest, Methods: map[string]*FuncSpec{}}
			ss.Ifaces[pkg+"::"+rest] = curI
		case "type":
			curF, curI = nil, nil
			curT = &TypeSpec{Pkg: pkg, Name: rest}
			ss.Types[pkg+"::"+rest] = curT
		case "invariant":
			if curT == nil {
				return fmt.Errorf("%s:%d: invariant outside type", path, it.n)
			}
			c, err := mk("invariant", rest, it.n)
			if err != nil {
				return err
			}
			curT.Invariants = append(curT.Invariants, c)
		case "requires", "ensures":
			if curF == nil {
				return fmt.Errorf("%s:%d: %s outside func", path, it.n, word)
			}
			c, err := mk(word, rest, it.n)
			if err != nil {
				return err
			}
			curF.HasBody = true
			if word == "requires" {
				curF.Requires = append(curF.Requires, c)
			} else {
				curF.Ensures = append(curF.Ensures, c)
			}
		case "modifies":
			if curF == nil {
				return fmt.Errorf("%s:%d: modifies outside func", path, it.n)
			}
			for _, m := range splitTop(rest) {
				m = strings.TrimSpace(m)
				if m == "" || m == "nothing" {
					continue
				}
				curF.Modifies = append(curF.Modifies, m)
			}
			curF.HasBody = true
		case "loop":
			if curF == nil {
				return fmt.Errorf("%s:%d: loop outside func", path, it.n)
			}
			var k int
			var kind string
			n, _ := fmt.Sscanf(rest, "%d %s", &k, &kind)
			if n != 2 {
				return fmt.Errorf("%s:%d: bad loop clause %q", path, it.n, rest)
			}
			body := strings.TrimSpace(rest[strings.Index(rest, kind)+len(kind):])
			ls := curF.Loops[k]
			if ls == nil {
				ls = &LoopSpec{Ordinal: k}
				curF.Loops[k] = ls
			}
			switch kind {
			case "invariant":
				c, err := mk("invariant", body, it.n)
				if err != nil {
					return err
				}
				ls.Invariants = append(ls.Invariants, c)
			case "decreases":
				c, err := mk("decreases", body, it.n)
				if err != nil {
					return err
				}
				ls.Decreases = c
			case "abstract":
				ls.Abstract = true
				ls.AbstractWhy = body
			case "shallow":
				// like abstract (invariants assumed, no invariant/pre/safety obligations from the body), but the body IS
				// explored and the ghost `assert`s anchored in it are proved
				ls.Abstract = true
				ls.Shallow = true
				ls.AbstractWhy = body
			case "modifies":
				ls.Modifies = append(ls.Modifies, splitTop(body)...)
			default:
				return fmt.Errorf("%s:%d: unknown loop clause %q", path, it.n, kind)
			}
		case "arith":
			if curF == nil {
				return fmt.Errorf("%s:%d: arith outside func", path, it.n)
			}
			curF.Arith = rest
		case "trusted":
			curF.Trusted = true
			if rest != "" {
				curF.Notes = append(curF.Notes, "trusted: "+rest)
			}
		case "chaninv":
			if curF == nil {
				return fmt.Errorf("%s:%d: chaninv outside func", path, it.n)
			}
			j := strings.Index(rest, ":")
			if j < 0 {
				return fmt.Errorf("%s:%d: chaninv T : expr", path, it.n)
			}
			cl, err := mk("chaninv", strings.TrimSpace(rest[j+1:]), it.n)
			if err != nil {
				return err
			}
			if curF.ChanInvs == nil {
				curF.ChanInvs = map[string]*Clause{}
			}
			curF.ChanInvs[strings.TrimSpace(rest[:j])] = cl
		case "gosequential":
			curF.GoSequential = true
		case "inline":
			curF.Inline = true
		case "pure":
			curF.Pure = true
		case "unroll":
			fmt.Sscanf(rest, "%d", &curF.Unroll)
		case "nosafety":
			for _, k := range strings.Fields(rest) {
				curF.NoSafety[k] = true
			}
		case "forbids":
			if curF == nil {
				return fmt.Errorf("%s:%d: forbids outside func", path, it.n)
			}
			curF.Forbids = append(curF.Forbids, strings.Fields(strings.ReplaceAll(rest, ",", " "))...)
		case "implements":
			curF.Implements = rest
		case "callspec":
			f := strings.Fields(rest)
			if len(f) == 2 {
				curF.CallSpecs[f[0]] = f[1]
			}
		case "note":
			if curF != nil {
				curF.Notes = append(curF.Notes, rest)
			}
		case "use":
			if curA != nil && curF == nil {
				curA.Uses = append(curA.Uses, strings.Fields(strings.ReplaceAll(rest, ",", " "))...)
			}
			if curF != nil {
				curF.Uses = append(curF.Uses, strings.Fields(strings.ReplaceAll(rest, ",", " "))...)
			}
		case "ghost":
			// ghost var NAME TYPE
			f := strings.Fields(rest)
			if len(f) >= 3 && f[0] == "var" && curF != nil {
				curF.GhostVars = append(curF.GhostVars, QVar{f[1], strings.Join(f[2:], " ")})
			} else if len(f) >= 3 && f[0] == "global" {
				// declared outside any function: a global ghost variable, visible to every contract
				ss.GlobalGhosts = append(ss.GlobalGhosts, QVar{f[1], strings.Join(f[2:], " ")})
			} else {
				return fmt.Errorf("%s:%d: bad ghost declaration", path, it.n)
			}
		case "at":
			// at ANCHOR : KIND expr       (ANCHOR may contain spaces, separated from statement by " : ")
			j := strings.Index(rest, " : ")
			if j < 0 || curF == nil {
				return fmt.Errorf("%s:%d: bad at-clause", path, it.n)
			}
			anchor, stmt := strings.TrimSpace(rest[:j]), strings.TrimSpace(rest[j+3:])
			g := &GhostStmt{Anchor: anchor, Line: it.n, File: path}
			sw, sr := stmt, ""
			if k := strings.IndexAny(stmt, " \t"); k >= 0 {
				sw, sr = stmt[:k], strings.TrimSpace(stmt[k+1:])
			}
			switch sw {
			case "assert", "assume":
				g.Kind = sw
				g.Src = sr
			case "set":
				k := strings.Index(sr, "=")
				if k < 0 {
					return fmt.Errorf("%s:%d: bad set", path, it.n)
				}
				g.Kind = "set"
				g.Var = strings.TrimSpace(sr[:k])
				g.Src = strings.TrimSpace(sr[k+1:])
			default:
				return fmt.Errorf("%s:%d: unknown ghost statement %q", path, it.n, sw)
			}
			e, err := parseSpecExpr(g.Src)
			if err != nil {
				return fmt.Errorf("%s:%d: %v", path, it.n, err)
			}
			g.E = e
			curF.Ghost = append(curF.Ghost, g)
		case "define":
			// define NAME(a T, b U) R = expr
			j := strings.Index(rest, "(")
			k := matchParen(rest, j)
			if j < 0 || k < 0 {
				return fmt.Errorf("%s:%d: bad define", path, it.n)
			}
			d := &DefineSpec{Name: strings.TrimSpace(rest[:j]), File: path, Line: it.n, Pkg: pkg}
			for _, p := range splitTop(rest[j+1 : k]) {
				p = strings.TrimSpace(p)
				if p == "" {
					continue
				}
				sp := strings.IndexAny(p, " \t")
				if sp < 0 {
					return fmt.Errorf("%s:%d: bad define parameter %q", path, it.n, p)
				}
				d.Params = append(d.Params, QVar{p[:sp], strings.TrimSpace(p[sp+1:])})
			}
			tail := strings.TrimSpace(rest[k+1:])
			eq := strings.Index(tail, "=")
			if eq < 0 {
				return fmt.Errorf("%s:%d: define without body", path, it.n)
			}
			d.Result = strings.TrimSpace(tail[:eq])
			d.Src = strings.TrimSpace(tail[eq+1:])
			e, err := parseSpecExpr(d.Src)
			if err != nil {
				return fmt.Errorf("%s:%d: %v", path, it.n, err)
			}
			d.Body = e
			ss.Defines[d.Name] = d
		case "smt":
			ss.Smt = append(ss.Smt, rest)
		case "axiom", "lemma":
			j := strings.Index(rest, ":")
			if j < 0 {
				return fmt.Errorf("%s:%d: bad %s", path, it.n, word)
			}
			a := &AxiomSpec{Name: strings.TrimSpace(rest[:j]), Src: strings.TrimSpace(rest[j+1:]), IsLemma: word == "lemma", File: path, Line: it.n, Pkg: pkg}
			e, err := parseSpecExpr(a.Src)
			if err != nil {
				return fmt.Errorf("%s:%d: %v", path, it.n, err)
			}
			a.E = e
			ss.Axioms[a.Name] = a
			curF = nil
			curA = a
		case "funcspec":
			curT, curI = nil, nil
			curF = &FuncSpec{Pkg: pkg, Name: "funcspec " + rest, File: path, Line: it.n, Loops: map[int]*LoopSpec{}, NoSafety: map[string]bool{}, CallSpecs: map[string]string{}}
			ss.Funcs["funcspec::"+rest] = curF
		default:
			return fmt.Errorf("%s:%d: unknown directive %q", path, it.n, word)
		}
	}
	return nil
}

func matchParen(s string, open int) int {
	if open < 0 {
		return -1
	}
	d := 0
	for i := open; i < len(s); i++ {
		switch s[i] {
		case '(':
			d++
		case ')':
			d--
			if d == 0 {
				return i
			}
		}
	}
	return -1
}

// splitTop splits on commas that are not nested in brackets.
func splitTop(s string) []string {
	var out []string
	d := 0
	last := 0
	for i := 0; i < len(s); i++ {
		switch s[i] {
		case '(', '[', '{':
			d++
		case ')', ']', '}':
			d--
		case ',':
			if d == 0 {
				out = append(out, s[last:i])
				last = i + 1
			}
		}
	}
	out = append(out, s[last:])
	return out
}

// specFor finds the contract of a function; instantiations of generic functions share the contract written for
// the generic origin (e.g. "cache::(*Cache[V]).save").
func (ss *SpecSet) specFor(fn *ssa.Function) *FuncSpec {
	if fn == nil {
		return nil
	}
	if sp, ok := ss.Funcs[funcKey(fn)]; ok {
		return sp
	}
	if o := fn.Origin(); o != nil {
		if sp, ok := ss.Funcs[funcKey(o)]; ok {
			return sp
		}
	}
	return nil
}
