package main

import (
	"fmt"
	"regexp"
	"go/constant"
	"go/types"
	"math/big"
	"sort"
	"strings"

	"golang.org/x/tools/go/ssa"
)

// ---------------------------------------------------------------------------
// Ctx: everything that is global to the verification of one function
// (sort and symbol declarations, obligations, assumption log)
// ---------------------------------------------------------------------------

type Obligation struct {
	Name    string // pkg.Func/kind#ordinal
	Kind    string
	Func    string
	Desc    string // clause text or instruction
	Pos     string
	Path    *cmdList
	Goal    string
	ExpectSat bool // vacuity checks
	Before  *cmdList // vacuity checks: the path before the assumption under test (an infeasible path is not a vacuity failure)
	PathID  int
	// results
	Result string // unsat | sat | unknown | timeout | error
	Solver string
	Ms     int64
	Output string
	Model  string
}

type cmdList struct {
	cmd  string
	prev *cmdList
	n    int
}

func (c *cmdList) push(cmd string) *cmdList {
	n := 1
	if c != nil {
		n = c.n + 1
	}
	return &cmdList{cmd, c, n}
}

func (c *cmdList) slice() []string {
	if c == nil {
		return nil
	}
	out := make([]string, c.n)
	for i, p := c.n-1, c; p != nil; i, p = i-1, p.prev {
		out[i] = p.cmd
	}
	return out
}

type Ctx struct {
	P    *Program
	SS   *SpecSet
	Fn   *ssa.Function
	Spec *FuncSpec
	Key  string

	sortCmds []string
	sortSeen map[string]bool
	declCmds []string
	declSeen map[string]bool
	n        int

	Obls        []*Obligation
	oblCount    map[string]int
	Assumptions map[string]bool
	Unmodelled  map[string]bool
	Undecided   []string
	tags        map[string]int
	strlits     map[string]string
	structNames map[string]string
	paths       int
	maxPaths    int
	usedAxioms  map[string]bool
	warned      map[string]bool
	needStrSub  bool
	constGlobals map[string]bool
	allGhosts   map[string]bool
	usesBSeq    bool
	usesObjKey  bool
	usesErrWraps bool
	ghostFired  map[*GhostStmt]bool
	privBoxes   map[*ssa.Function][]*ssa.Alloc
	privSlices  map[*ssa.Function][]*ssa.Alloc
	privMaps    map[*ssa.Function][]*ssa.Alloc
	finalComps  map[string]bool // heap components of fields that are never written once their object exists (A-FINAL)
	skippedAbs  map[int]int // loop ordinal -> obligations not generated because the loop is declared abstract
	defs        map[string]string
	paramTerms  []Value
	smtCache    []string
	mapofMemo   map[string]string // body text -> constant naming that map
	mapofDefs   []string          // their defining axioms (emitted after the declarations)
	usesBits    bool
	epochs      int
	rangeCells  map[*ssa.Range]*Cell
	Notes       []string
	compSorts   map[string]string
}

func newCtx(P *Program, SS *SpecSet, fn *ssa.Function, spec *FuncSpec, key string) *Ctx {
	// `implements F`: the function is verified against the contract of the function type F as well (its ensures are
	// added to the function's own; its requires may be assumed), so that it may be passed where an F is expected
	if spec != nil && spec.Implements != "" {
		if fs := SS.Funcs["funcspec::"+spec.Implements]; fs != nil {
			cp := *spec
			cp.Requires = append(append([]*Clause{}, spec.Requires...), fs.Requires...)
			cp.Ensures = append(append([]*Clause{}, spec.Ensures...), fs.Ensures...)
			cp.Modifies = append(append([]string{}, spec.Modifies...), fs.Modifies...)
			cp.HasBody = true
			spec = &cp
		}
	}
	return &Ctx{P: P, SS: SS, Fn: fn, Spec: spec, Key: key,
		sortSeen: map[string]bool{}, declSeen: map[string]bool{}, oblCount: map[string]int{},
		Assumptions: map[string]bool{}, Unmodelled: map[string]bool{}, tags: map[string]int{}, strlits: map[string]string{},
		structNames: map[string]string{}, maxPaths: 4000, usedAxioms: map[string]bool{}, warned: map[string]bool{}, rangeCells: map[*ssa.Range]*Cell{}, compSorts: map[string]string{}, defs: map[string]string{}, constGlobals: map[string]bool{}, skippedAbs: map[int]int{}}
}

func (c *Ctx) fresh(prefix string) string {
	c.n++
	return fmt.Sprintf("%s!%d", sanitize(prefix), c.n)
}

func sanitize(s string) string {
	var sb strings.Builder
	for _, r := range s {
		if r >= 'a' && r <= 'z' || r >= 'A' && r <= 'Z' || r >= '0' && r <= '9' || r == '_' || r == '.' || r == '$' {
			sb.WriteRune(r)
		} else {
			sb.WriteByte('_')
		}
	}
	return sb.String()
}

func (c *Ctx) declare(name, sort string) {
	if c.declSeen[name] {
		return
	}
	c.declSeen[name] = true
	c.declCmds = append(c.declCmds, fmt.Sprintf("(declare-const %s %s)", name, sort))
}

func (c *Ctx) declareFun(name string, args []string, res string) {
	if c.declSeen[name] {
		return
	}
	c.declSeen[name] = true
	c.declCmds = append(c.declCmds, fmt.Sprintf("(declare-fun %s (%s) %s)", name, strings.Join(args, " "), res))
}

func (c *Ctx) assume(tag string) { c.Assumptions[tag] = true }

// ---------------------------------------------------------------------------
// Sorts
// ---------------------------------------------------------------------------


func (c *Ctx) under(t types.Type) types.Type {
	return types.Unalias(t).Underlying()
}

var aliasWordRe = regexp.MustCompile(`\b(byte|rune)\b`)

// typeKey is a canonical name of a type (byte and uint8, rune and int32 are the same type).
func typeKey(t types.Type) string {
	s := types.TypeString(t, func(p *types.Package) string { return shortPkg(p.Path()) })
	return aliasWordRe.ReplaceAllStringFunc(s, func(w string) string {
		if w == "byte" {
			return "uint8"
		}
		return "int32"
	})
}

func (c *Ctx) sortOf(t types.Type) string {
	switch u := c.under(t).(type) {
	case *types.Basic:
		switch {
		case u.Info()&types.IsBoolean != 0:
			return "Bool"
		case u.Info()&types.IsInteger != 0:
			return "Int"
		case u.Info()&types.IsFloat != 0:
			return "Real"
		case u.Info()&types.IsString != 0:
			return "Str"
		case u.Kind() == types.UnsafePointer:
			return "Int"
		case u.Kind() == types.UntypedNil:
			return "Int"
		}
		return "Int"
	case *types.Pointer, *types.Map, *types.Chan, *types.Signature:
		return "Int"
	case *types.Slice:
		return "Slice"
	case *types.Interface:
		return "Iface"
	case *types.Array:
		return "(Array Int " + c.sortOf(u.Elem()) + ")"
	case *types.Struct:
		return c.structSort(t, u)
	case *types.Tuple:
		return "Int"
	case *types.TypeParam:
		return "Int"
	}
	return "Int"
}

func (c *Ctx) structSort(t types.Type, u *types.Struct) string {
	key := typeKey(types.Unalias(t))
	if _, isNamed := types.Unalias(t).(*types.Named); !isNamed {
		key = typeKey(u)
	}
	if n, ok := c.structNames[key]; ok {
		return n
	}
	name := "S_" + sanitize(key)
	if len(name) > 60 {
		name = fmt.Sprintf("S_anon%d", len(c.structNames))
	}
	c.structNames[key] = name
	var fs []string
	for i := 0; i < u.NumFields(); i++ {
		f := u.Field(i)
		fs = append(fs, fmt.Sprintf("(%s %s)", c.fieldSel(name, f.Name(), i), c.sortOf(f.Type())))
	}
	if len(fs) == 0 {
		fs = append(fs, fmt.Sprintf("(%s.$unit Int)", name))
	}
	c.sortCmds = append(c.sortCmds, fmt.Sprintf("(declare-datatypes ((%s 0)) (((mk.%s %s))))", name, name, strings.Join(fs, " ")))
	return name
}

func (c *Ctx) fieldSel(structSort, fname string, i int) string {
	if fname == "_" {
		fname = fmt.Sprintf("$blank%d", i)
	}
	return structSort + "." + fname
}

func (c *Ctx) structOf(t types.Type) *types.Struct {
	s, _ := c.under(t).(*types.Struct)
	return s
}

// zero value of a type as an SMT term
func (c *Ctx) zero(t types.Type) string {
	switch u := c.under(t).(type) {
	case *types.Basic:
		switch {
		case u.Info()&types.IsBoolean != 0:
			return "false"
		case u.Info()&types.IsFloat != 0:
			return "0.0"
		case u.Info()&types.IsString != 0:
			return "gs.empty"
		}
		return "0"
	case *types.Slice:
		return "(mk-slice 0 0 0 0)"
	case *types.Interface:
		return "(mk-iface 0 0)"
	case *types.Array:
		return fmt.Sprintf("((as const %s) %s)", c.sortOf(t), c.zero(u.Elem()))
	case *types.Struct:
		name := c.structSort(t, u)
		if u.NumFields() == 0 {
			return "(mk." + name + " 0)"
		}
		var fs []string
		for i := 0; i < u.NumFields(); i++ {
			fs = append(fs, c.zero(u.Field(i).Type()))
		}
		return "(mk." + name + " " + strings.Join(fs, " ") + ")"
	}
	return "0"
}

func intRange(b *types.Basic) (lo, hi *big.Int, ok bool) {
	bits := 0
	signed := false
	switch b.Kind() {
	case types.Int8:
		bits, signed = 8, true
	case types.Int16:
		bits, signed = 16, true
	case types.Int32:
		bits, signed = 32, true
	case types.Int64, types.Int:
		bits, signed = 64, true
	case types.Uint8:
		bits = 8
	case types.Uint16:
		bits = 16
	case types.Uint32:
		bits = 32
	case types.Uint64, types.Uint, types.Uintptr:
		bits = 64
	case types.UntypedInt, types.UntypedRune:
		return nil, nil, false
	default:
		return nil, nil, false
	}
	one := big.NewInt(1)
	if signed {
		hi = new(big.Int).Sub(new(big.Int).Lsh(one, uint(bits-1)), one)
		lo = new(big.Int).Neg(new(big.Int).Lsh(one, uint(bits-1)))
	} else {
		lo = big.NewInt(0)
		hi = new(big.Int).Sub(new(big.Int).Lsh(one, uint(bits)), one)
	}
	return lo, hi, true
}

func smtInt(b *big.Int) string {
	if b.Sign() < 0 {
		return "(- " + new(big.Int).Neg(b).String() + ")"
	}
	return b.String()
}

func (c *Ctx) basicInt(t types.Type) *types.Basic {
	if b, ok := c.under(t).(*types.Basic); ok && b.Info()&types.IsInteger != 0 {
		return b
	}
	return nil
}

func isUnsigned(b *types.Basic) bool { return b.Info()&types.IsUnsigned != 0 }

func bitsOf(b *types.Basic) int {
	switch b.Kind() {
	case types.Int8, types.Uint8:
		return 8
	case types.Int16, types.Uint16:
		return 16
	case types.Int32, types.Uint32:
		return 32
	}
	return 64
}

// wf returns well-formedness facts about a term of the given Go type (ranges, slice shape, ...).
func (c *Ctx) wf(term string, t types.Type, depth int) []string {
	var out []string
	switch u := c.under(t).(type) {
	case *types.Basic:
		if u.Info()&types.IsInteger != 0 {
			if lo, hi, ok := intRange(u); ok {
				out = append(out, fmt.Sprintf("(and (<= %s %s) (<= %s %s))", smtInt(lo), term, term, smtInt(hi)))
			}
		}
	case *types.Pointer, *types.Map, *types.Chan:
		out = append(out, fmt.Sprintf("(>= %s 0)", term))
	case *types.Slice:
		out = append(out, fmt.Sprintf("(and (>= (s.off %s) 0) (>= (s.len %s) 0) (<= (s.len %s) (s.cap %s)) (<= (s.cap %s) 9223372036854775807) (>= (s.base %s) 0) (=> (= (s.base %s) 0) (= (s.cap %s) 0)))", term, term, term, term, term, term, term, term))
	case *types.Interface:
		out = append(out, fmt.Sprintf("(and (>= (i.tag %s) 0) (>= (i.val %s) 0) (=> (= (i.tag %s) 0) (= (i.val %s) 0)))", term, term, term, term))
	case *types.Struct:
		if depth > 3 {
			return nil
		}
		name := c.structSort(t, u)
		for i := 0; i < u.NumFields(); i++ {
			out = append(out, c.wf(fmt.Sprintf("(%s %s)", c.fieldSel(name, u.Field(i).Name(), i), term), u.Field(i).Type(), depth+1)...)
		}
	}
	return out
}

// type tags for interface dynamic types
func (c *Ctx) tagOf(t types.Type) string {
	k := typeKey(t)
	if n, ok := c.tags[k]; ok {
		return fmt.Sprint(n)
	}
	n := len(c.tags) + 1
	c.tags[k] = n
	return fmt.Sprint(n)
}

func (c *Ctx) strLit(s string) string {
	if s == "" {
		return "gs.empty"
	}
	if n, ok := c.strlits[s]; ok {
		return n
	}
	name := fmt.Sprintf("strlit!%d", len(c.strlits))
	c.strlits[s] = name
	c.declare(name, "Str")
	return name
}

// strLitFacts: lengths, characters, and pairwise distinctness of the literals used.
func (c *Ctx) strLitFacts() []string {
	var out []string
	var names []string
	keys := make([]string, 0, len(c.strlits))
	for s := range c.strlits {
		keys = append(keys, s)
	}
	sort.Strings(keys)
	for _, s := range keys {
		n := c.strlits[s]
		names = append(names, n)
		out = append(out, fmt.Sprintf("(assert (= (gs.len %s) %d))", n, len(s)))
		if len(s) <= 16 {
			for i := 0; i < len(s); i++ {
				out = append(out, fmt.Sprintf("(assert (= (gs.at %s %d) %d))", n, i, s[i]))
			}
		}
	}
	if len(names) > 0 {
		names = append(names, "gs.empty")
		out = append(out, "(assert (distinct "+strings.Join(names, " ")+"))")
	}
	return out
}

func (c *Ctx) constTerm(k *ssa.Const) (string, bool) {
	t := k.Type()
	if k.Value == nil {
		return c.zero(t), true
	}
	switch k.Value.Kind() {
	case constant.Bool:
		if constant.BoolVal(k.Value) {
			return "true", true
		}
		return "false", true
	case constant.Int:
		if b, ok := c.under(t).(*types.Basic); ok && b.Info()&types.IsFloat != 0 {
			return constant.ToInt(k.Value).ExactString() + ".0", true
		}
		v, _ := new(big.Int).SetString(k.Value.ExactString(), 10)
		if v == nil {
			return "", false
		}
		return smtInt(v), true
	case constant.Float:
		if b, ok := c.under(t).(*types.Basic); ok && b.Info()&types.IsInteger != 0 {
			if i := constant.ToInt(k.Value); i.Kind() == constant.Int {
				v, _ := new(big.Int).SetString(i.ExactString(), 10)
				return smtInt(v), true
			}
		}
		r, _ := new(big.Rat).SetString(k.Value.ExactString())
		if r == nil {
			return "", false
		}
		num, den := r.Num(), r.Denom()
		s := fmt.Sprintf("(/ %s.0 %s.0)", new(big.Int).Abs(num).String(), den.String())
		if num.Sign() < 0 {
			s = "(- " + s + ")"
		}
		return s, true
	case constant.String:
		return c.strLit(constant.StringVal(k.Value)), true
	}
	return "", false
}

func (c *Ctx) compSort(name string) string { return c.compSorts[name] }
