package main

import (
	"regexp"
	"bytes"
	"context"
	"fmt"
	"os"
	"os/exec"
	"path/filepath"
	"strings"
	"sync"
	"time"
)

func genPrelude() string {
	var sb strings.Builder
	sb.WriteString(`(declare-datatypes ((Slice 0)) (((mk-slice (s.base Int) (s.off Int) (s.len Int) (s.cap Int)))))
(declare-datatypes ((Iface 0)) (((mk-iface (i.tag Int) (i.val Int)))))
(declare-sort Str 0)
(declare-fun gs.len (Str) Int)
(declare-fun gs.at (Str Int) Int)
(declare-fun gs.lt (Str Str) Bool)
(declare-fun gs.sub (Str Int Int) Str)
(declare-fun gs.cat (Str Str) Str)
(assert (forall ((s Str) (a Int) (b Int) (j Int)) (! (=> (and (<= a j) (< j b) (<= 0 a) (<= b (gs.len s))) (= (gs.at s j) (gs.at (gs.sub s a b) (- j a)))) :pattern ((gs.at s j) (gs.sub s a b)))))
(declare-fun gs.ofbytes (Int Int Int (Array Int Int)) Str)
(assert (forall ((b Int) (o Int) (n Int) (A (Array Int Int))) (! (=> (>= n 0) (= (gs.len (gs.ofbytes b o n A)) n)) :pattern ((gs.ofbytes b o n A)))))
(declare-const gs.empty Str)
(assert (= (gs.len gs.empty) 0))
(assert (forall ((s Str)) (! (>= (gs.len s) 0) :pattern ((gs.len s)))))
(assert (forall ((s Str)) (=> (= (gs.len s) 0) (= s gs.empty))))
(define-fun go.div ((a Int) (b Int)) Int (ite (>= a 0) (ite (> b 0) (div a b) (- (div a (- b)))) (ite (> b 0) (- (div (- a) b)) (div (- a) (- b)))))
(define-fun go.mod ((a Int) (b Int)) Int (- a (* b (go.div a b))))
(declare-fun idx (Int Int) Int)
(assert (forall ((o Int) (i Int)) (! (= (idx o i) (+ o i)) :pattern ((idx o i)))))
(declare-sort BSeq 0)
(declare-fun bseq ((Array Int Int) Int Int) BSeq)
(declare-fun bseq.str (Str) BSeq)
(declare-fun bs.len (BSeq) Int)
(declare-fun bs.lt (BSeq BSeq) Bool)
(declare-fun bs.pfx (BSeq Int) BSeq)
(declare-fun nl.div (Int Int) Int)
(declare-fun nl.mod (Int Int) Int)
(declare-fun nl.mul (Int Int) Int)
(declare-fun bit.and (Int Int) Int)
(declare-fun bit.or (Int Int) Int)
(declare-fun bit.xor (Int Int) Int)
(declare-fun bit.andnot (Int Int) Int)
(assert (forall ((a Int) (b Int)) (! (=> (and (>= a 0) (>= b 0)) (and (>= (bit.and a b) 0) (<= (bit.and a b) a) (<= (bit.and a b) b))) :pattern ((bit.and a b)))))
(assert (forall ((a Int) (b Int)) (! (=> (and (>= a 0) (>= b 0)) (and (>= (bit.or a b) a) (>= (bit.or a b) b) (<= (bit.or a b) (+ a b)))) :pattern ((bit.or a b)))))
(assert (forall ((a Int) (b Int)) (! (=> (and (>= a 0) (>= b 0)) (and (>= (bit.xor a b) 0) (<= (bit.xor a b) (+ a b)))) :pattern ((bit.xor a b)))))
(assert (forall ((a Int) (b Int)) (! (=> (and (>= a 0) (>= b 0)) (and (>= (bit.andnot a b) 0) (<= (bit.andnot a b) a))) :pattern ((bit.andnot a b)))))
`)
	// pow2 for 0..64
	sb.WriteString("(define-fun pow2 ((k Int)) Int ")
	for k := 0; k < 64; k++ {
		fmt.Fprintf(&sb, "(ite (<= k %d) %s ", k, pow2lit(k))
	}
	sb.WriteString(pow2lit(64))
	sb.WriteString(strings.Repeat(")", 64))
	sb.WriteString(")\n")
	sb.WriteString("(declare-fun bit8 (Int Int) Bool)\n(assert (forall ((k Int)) (! (not (bit8 0 k)) :pattern ((bit8 0 k)))))\n")
	return sb.String()
}

func genBitsPrelude() string {
	var sb strings.Builder
	// 8-bit operations: bit8 is an uninterpreted predicate; every operation is characterised bit by bit.
	// (The axioms are facts of 8-bit arithmetic; `vcgo selftest-bits` validates each of them exhaustively.)
	sb.WriteString("(define-fun val8 ((a Int)) Int (+")
	for k := 0; k < 8; k++ {
		fmt.Fprintf(&sb, " (ite (bit8 a %d) %d 0)", k, 1<<k)
	}
	sb.WriteString("))\n")
	sb.WriteString("(assert (forall ((a Int) (k Int)) (! (=> (and (<= 0 a) (< a 256)) (= a (val8 a))) :pattern ((bit8 a k)))))\n")
	for _, op := range []string{"and", "or", "xor"} {
		fmt.Fprintf(&sb, "(declare-fun b%s8 (Int Int) Int)\n", op)
		fmt.Fprintf(&sb, "(assert (forall ((a Int) (b Int)) (! (and (<= 0 (b%s8 a b)) (< (b%s8 a b) 256) (= (b%s8 a b) (val8 (b%s8 a b)))", op, op, op, op)
		for k := 0; k < 8; k++ {
			fmt.Fprintf(&sb, " (= (bit8 (b%s8 a b) %d) (%s (bit8 a %d) (bit8 b %d)))", op, k, op, k, k)
		}
		fmt.Fprintf(&sb, ") :pattern ((b%s8 a b)))))\n", op)
	}
	sb.WriteString("(declare-fun bnot8 (Int) Int)\n(assert (forall ((a Int)) (! (and (<= 0 (bnot8 a)) (< (bnot8 a) 256) (= (bnot8 a) (val8 (bnot8 a)))")
	for k := 0; k < 8; k++ {
		fmt.Fprintf(&sb, " (= (bit8 (bnot8 a) %d) (not (bit8 a %d)))", k, k)
	}
	sb.WriteString(") :pattern ((bnot8 a)))))\n")
	// shifts: operand a is an 8-bit value, k >= 0 arbitrary
	for _, op := range []string{"shl8", "shr8"} {
		fmt.Fprintf(&sb, "(declare-fun %s (Int Int) Int)\n(assert (forall ((a Int) (k Int)) (! (=> (>= k 0) (and (<= 0 (%s a k)) (< (%s a k) 256) (= (%s a k) (val8 (%s a k)))", op, op, op, op, op)
		for j := 0; j < 8; j++ {
			// bit j of result
			fmt.Fprintf(&sb, " (= (bit8 (%s a k) %d) ", op, j)
			var sb2 strings.Builder
			n := 0
			for k := 0; k < 8; k++ {
				src := j - k
				if op == "shr8" {
					src = j + k
				}
				if src < 0 || src > 7 {
					continue
				}
				fmt.Fprintf(&sb2, "(ite (= k %d) (bit8 a %d) ", k, src)
				n++
			}
			sb2.WriteString("false" + strings.Repeat(")", n))
			sb.WriteString(sb2.String() + ")")
		}
		fmt.Fprintf(&sb, ")) :pattern ((%s a k)))))\n", op)
	}
	return sb.String()
}

// bseqPrelude: byte sequences as an abstract totally ordered sort (A-LEX). bseq(A,o,n) is the content of the
// window [o,o+n) of backing array A; bs.lt is bytes.Compare < 0; bs.pfx(s,l) is s[:min(len s, l)].
const bseqPrelude = `(assert (forall ((a BSeq)) (! (not (bs.lt a a)) :pattern ((bs.lt a a)))))
(assert (forall ((a BSeq) (b BSeq)) (! (or (bs.lt a b) (= a b) (bs.lt b a)) :pattern ((bs.lt a b)))))
(assert (forall ((a BSeq) (b BSeq)) (! (not (and (bs.lt a b) (bs.lt b a))) :pattern ((bs.lt a b)))))
(assert (forall ((a BSeq) (b BSeq) (c BSeq)) (! (=> (and (bs.lt a b) (bs.lt b c)) (bs.lt a c)) :pattern ((bs.lt a b) (bs.lt b c)))))
(assert (forall ((A (Array Int Int)) (o Int) (n Int)) (! (=> (>= n 0) (= (bs.len (bseq A o n)) n)) :pattern ((bseq A o n)))))
(assert (forall ((s Str)) (! (= (bs.len (bseq.str s)) (gs.len s)) :pattern ((bseq.str s)))))
(assert (forall ((A (Array Int Int)) (o Int) (n Int) (m Int)) (! (=> (and (<= 0 m) (<= m n)) (= (bseq A o m) (bs.pfx (bseq A o n) m))) :pattern ((bseq A o m) (bseq A o n)))))
(declare-const bs.empty BSeq)
(assert (= (bs.len bs.empty) 0))
(assert (forall ((a BSeq)) (! (and (>= (bs.len a) 0) (=> (= (bs.len a) 0) (= a bs.empty))) :pattern ((bs.len a)))))
(assert (forall ((a BSeq) (l Int)) (! (=> (>= l (bs.len a)) (= (bs.pfx a l) a)) :pattern ((bs.pfx a l)))))
(assert (forall ((a BSeq) (l Int)) (! (=> (and (<= 0 l) (<= l (bs.len a))) (= (bs.len (bs.pfx a l)) l)) :pattern ((bs.pfx a l)))))
(assert (forall ((a BSeq) (b BSeq) (l Int)) (! (=> (and (>= l 0) (not (bs.lt b a))) (not (bs.lt (bs.pfx b l) (bs.pfx a l)))) :pattern ((bs.pfx a l) (bs.pfx b l)))))
(assert (forall ((a BSeq) (l Int) (m Int)) (! (=> (and (<= 0 l) (<= l m)) (= (bs.pfx (bs.pfx a m) l) (bs.pfx a l))) :pattern ((bs.pfx (bs.pfx a m) l)))))
(assert (forall ((a BSeq) (b BSeq)) (! (=> (and (= (bs.pfx b (bs.len a)) a) (not (= a b))) (bs.lt a b)) :pattern ((bs.pfx b (bs.len a)) (bs.lt a b)))))
`

// object identity for per-object ghost maps: okey pairs (dynamic type tag, reference) injectively; intr names the
// address of a field inside an object (embedded struct), distinct from every allocated reference (negative).
const objKeyPrelude = `(declare-fun okey (Int Int) Int)
(declare-fun okey.t (Int) Int)
(declare-fun okey.v (Int) Int)
(assert (forall ((t Int) (v Int)) (! (and (= (okey.t (okey t v)) t) (= (okey.v (okey t v)) v)) :pattern ((okey t v)))))
(declare-fun intr (Int Int) Int)
(declare-fun intr.r (Int) Int)
(declare-fun intr.f (Int) Int)
(assert (forall ((r Int) (f Int)) (! (and (= (intr.r (intr r f)) r) (= (intr.f (intr r f)) f) (< (intr r f) 0)) :pattern ((intr r f)))))
`

var prelude = genPrelude()
var bitsPrelude = genBitsPrelude()

func (c *Ctx) queryText(o *Obligation, forModel bool) string {
	var sb strings.Builder
	sb.WriteString("(set-option :produce-models true)\n(set-logic ALL)\n")
	sb.WriteString(prelude)
	if c.usesBits {
		sb.WriteString(bitsPrelude)
	}
	if c.usesBSeq {
		sb.WriteString(bseqPrelude)
	}
	if c.usesObjKey {
		sb.WriteString(objKeyPrelude)
	}
	for _, l := range c.sortCmds {
		sb.WriteString(l + "\n")
	}
	for _, l := range c.declCmds {
		sb.WriteString(l + "\n")
	}
	for _, l := range c.mapofDefs {
		sb.WriteString(l + "\n")
	}
	for _, l := range c.smtLines() {
		sb.WriteString(l + "\n")
	}
	for _, l := range c.strLitFacts() {
		sb.WriteString(l + "\n")
	}
	for _, l := range o.Path.slice() {
		sb.WriteString(l + "\n")
	}
	if o.Goal != "false" || !o.ExpectSat {
		sb.WriteString("(assert (not " + o.Goal + "))\n")
	}
	sb.WriteString("(check-sat)\n")
	if forModel {
		sb.WriteString("(get-model)\n")
	}
	return sb.String()
}

type solverCfg struct {
	name string
	args func(file string, secs int) []string
}

var solvers = []solverCfg{
	{"z3-new", func(f string, t int) []string { return []string{"z3-new", fmt.Sprintf("-T:%d", t), "-smt2", f} }},
	{"cvc5", func(f string, t int) []string { return []string{"cvc5", fmt.Sprintf("--tlimit=%d", t*1000), f} }},
	{"z3", func(f string, t int) []string { return []string{"z3", fmt.Sprintf("-T:%d", t), "-smt2", f} }},
}

func runSolver(sc solverCfg, file string, secs int) (res string, out string, ms int64) {
	return runSolverCtx(context.Background(), sc, file, secs)
}

func runSolverCtx(parent context.Context, sc solverCfg, file string, secs int) (res string, out string, ms int64) {
	args := sc.args(file, secs)
	ctx, cancel := context.WithTimeout(parent, time.Duration(secs+2)*time.Second)
	defer cancel()
	cmd := exec.CommandContext(ctx, args[0], args[1:]...)
	var buf bytes.Buffer
	cmd.Stdout = &buf
	cmd.Stderr = &buf
	t0 := time.Now()
	_ = cmd.Run()
	ms = time.Since(t0).Milliseconds()
	out = buf.String()
	first := strings.TrimSpace(out)
	if j := strings.Index(first, "\n"); j >= 0 {
		first = strings.TrimSpace(first[:j])
	}
	switch first {
	case "unsat", "sat", "unknown":
		return first, out, ms
	}
	if strings.Contains(out, "timeout") || ctx.Err() != nil {
		return "timeout", out, ms
	}
	return "error", out, ms
}

type solveOpts struct {
	secs    int
	workDir string
	all     bool // run every solver (thorough): disagreement => error
	workers int
	deadline time.Time // overall budget of the solving phase: queries not started by then are reported as timed out
}

func (c *Ctx) discharge(opts solveOpts) {
	os.MkdirAll(opts.workDir, 0o755)
	var wg sync.WaitGroup
	sem := make(chan struct{}, opts.workers)
	for i, o := range c.Obls {
		wg.Add(1)
		sem <- struct{}{}
		go func(i int, o *Obligation) {
			defer wg.Done()
			defer func() { <-sem }()
			c.solveOne(i, o, opts)
		}(i, o)
	}
	wg.Wait()
}

var satisfiedMu sync.Mutex
var satisfied = map[string]bool{}

func (c *Ctx) solveOne(i int, o *Obligation, opts solveOpts) {
	if o.Goal == "true" && !o.ExpectSat {
		o.Result, o.Solver = "unsat", "trivial"
		return
	}
	if o.Goal == "false" && o.Path == nil && !o.ExpectSat {
		// an obligation that is false by construction (an unreached ghost anchor, a clause that cannot be bound to
		// the code): nothing to ask a solver
		o.Result, o.Solver = "unknown", "unprovable by construction"
		o.Output = "the obligation is `false` without hypotheses: it records a mismatch between contract and code"
		return
	}
	if !opts.deadline.IsZero() && time.Now().After(opts.deadline) {
		// the budget of the whole check is used up (on the unchanged tree the solving phase takes a few minutes): the
		// query is reported as not discharged instead of letting a changed tree keep the check running for hours
		o.Result, o.Solver = "timeout", "budget"
		o.Output = "overall solver budget of the check exhausted before this query was started"
		return
	}
	if o.ExpectSat {
		// satisfiability / reachability checks: one witness path per obligation name is enough
		satisfiedMu.Lock()
		done := satisfied[o.Name]
		satisfiedMu.Unlock()
		if done {
			o.Result, o.Solver = "unknown", "covered by another path"
			return
		}
		defer func() {
			if o.ok() {
				satisfiedMu.Lock()
				satisfied[o.Name] = true
				satisfiedMu.Unlock()
			}
		}()
	}
	file := filepath.Join(opts.workDir, fmt.Sprintf("%s_%d.smt2", sanitize(strings.ReplaceAll(o.Name, "/", "_")), i))
	if err := os.WriteFile(file, []byte(c.queryText(o, false)), 0o644); err != nil {
		o.Result = "error"
		o.Output = err.Error()
		return
	}
	var results []string
	record := func(name, res, out string, ms int64) {
		o.Ms += ms
		results = append(results, name+"="+res)
		if res == "error" {
			o.Output += name + ": " + firstLines(out, 3) + "\n"
		}
		if res == "unsat" || res == "sat" {
			if o.Result == "" || o.Result == "unknown" || o.Result == "timeout" || o.Result == "error" {
				o.Result, o.Solver = res, name
			} else if o.Result != res {
				o.Result = "error"
				o.Output += "solver disagreement: " + strings.Join(results, " ") + "\n"
			}
			return
		}
		if o.Result == "" || (o.Result == "error" && res != "error") {
			o.Result, o.Solver = res, name
		}
	}
	if o.ExpectSat {
		res, out, ms := runSolver(solvers[0], file, 2)
		record(solvers[0].name, res, out, ms)
		if res == "unsat" && o.Before != nil {
			// is the path infeasible already before the assumption under test?
			o2 := *o
			o2.Path = o.Before
			f2 := file + ".before.smt2"
			os.WriteFile(f2, []byte(c.queryText(&o2, false)), 0o644)
			r2, _, ms2 := runSolver(solvers[0], f2, 2)
			o.Ms += ms2
			os.Remove(f2)
			if r2 == "unsat" {
				o.Result, o.Solver = "unknown", "infeasible path"
				results = append(results, "before=unsat (path infeasible)")
			}
		}
	} else {
		// stage 1: the usually fastest solver with a short budget
		short := 3
		if opts.secs < short {
			short = opts.secs
		}
		res, out, ms := runSolver(solvers[0], file, short)
		record(solvers[0].name, res, out, ms)
		if !(res == "unsat" || res == "sat") {
			// stage 1b: a universally quantified goal whose bound variable ranges up to a loop counter (`k <= rangeindex`)
			// usually needs the case split "the new element / the old ones"; the skolemised goal carries the bound as
			// `(assert (<= sk_k T))`: prove the goal once under sk_k = T and once under sk_k < T (exhaustive, hence sound)
			if r2, ms2, ok := c.trySplit(file, short+3); ok {
				record("z3-new/split", r2, "", ms2)
				res = r2
			}
		}
		if !(res == "unsat" || res == "sat") || opts.all {
			// stage 2: race all solvers with the full budget
			type ans struct {
				name, res, out string
				ms             int64
			}
			ch := make(chan ans, len(solvers))
			ctx, cancel := context.WithCancel(context.Background())
			// (thorough tier, `all`: a query the first solver has already decided is cross-checked by the others with
			// a short budget - they agree or say nothing; a disagreement is reported as an error. The full budget is
			// for queries that are still open.)
			raceSecs := opts.secs
			if res == "unsat" || res == "sat" {
				raceSecs = 4
			}
			for _, sc := range solvers {
				go func(sc solverCfg) {
					r, o2, m := runSolverCtx(ctx, sc, file, raceSecs)
					ch <- ans{sc.name, r, o2, m}
				}(sc)
			}
			for range solvers {
				a := <-ch
				if ctx.Err() != nil && a.res != "unsat" && a.res != "sat" {
					continue // cancelled
				}
				record(a.name, a.res, a.out, a.ms)
				if (a.res == "unsat" || a.res == "sat") && !opts.all {
					cancel()
				}
			}
			cancel()
		}
		if !(o.Result == "unsat" || o.Result == "sat") {
			// stage 3: an undecided query is retried with perturbed z3 configurations (other random seeds, MBQI off,
			// the other arithmetic solver): quantifier instantiation is order-sensitive, and a proof that exists must not
			// be lost to one unlucky order. Any `unsat` decides.
			variants := []solverCfg{
				{"z3-new/seed7", func(f string, t int) []string {
					return []string{"z3-new", fmt.Sprintf("-T:%d", t), "smt.random_seed=7", "sat.random_seed=7", "-smt2", f}
				}},
				{"z3-new/nombqi", func(f string, t int) []string {
					return []string{"z3-new", fmt.Sprintf("-T:%d", t), "smt.mbqi=false", "-smt2", f}
				}},
				{"z3-new/arith2", func(f string, t int) []string {
					return []string{"z3-new", fmt.Sprintf("-T:%d", t), "smt.arith.solver=2", "smt.random_seed=42", "-smt2", f}
				}},
				{"z3-new/eager", func(f string, t int) []string {
					return []string{"z3-new", fmt.Sprintf("-T:%d", t), "smt.qi.eager_threshold=100", "smt.random_seed=3", "-smt2", f}
				}},
			}
			type ans struct {
				name, res, out string
				ms             int64
			}
			ch := make(chan ans, len(variants))
			ctx, cancel := context.WithCancel(context.Background())
			for _, sc := range variants {
				go func(sc solverCfg) {
					r, o2, m := runSolverCtx(ctx, sc, file, opts.secs)
					ch <- ans{sc.name, r, o2, m}
				}(sc)
			}
			for range variants {
				a := <-ch
				if ctx.Err() != nil && a.res != "unsat" && a.res != "sat" {
					continue
				}
				if a.res == "unsat" || a.res == "sat" {
					record(a.name, a.res, a.out, a.ms)
					cancel()
				} else {
					results = append(results, a.name+"="+a.res)
				}
			}
			cancel()
		}
	}
	o.Output += strings.Join(results, " ")
	if o.Result == "sat" && !o.ExpectSat {
		// fetch a model
		mf := file + ".model.smt2"
		os.WriteFile(mf, []byte(c.queryText(o, true)), 0o644)
		for _, sc := range solvers {
			if sc.name == o.Solver {
				_, out, _ := runSolver(sc, mf, opts.secs)
				o.Model = out
			}
		}
	}
	if o.Result == "unsat" && !o.ExpectSat || o.ExpectSat && (o.Result == "sat" || o.Result == "unknown" || o.Result == "timeout") {
		os.Remove(file)
	}
}

// trySplit: see stage 1b of solveOne. ok=false when the query has no skolem bound to split on or a case is undecided.
func (c *Ctx) trySplit(file string, secs int) (res string, ms int64, ok bool) {
	b, err := os.ReadFile(file)
	if err != nil {
		return "", 0, false
	}
	text := string(b)
	const pre = "(assert (<= sk_"
	i := strings.LastIndex(text, pre)
	if i < 0 {
		return "", 0, false
	}
	line := text[i:]
	if j := strings.IndexByte(line, '\n'); j >= 0 {
		line = line[:j]
	}
	// line = (assert (<= sk_NAME TERM))
	body := strings.TrimSuffix(strings.TrimPrefix(line, "(assert (<= "), "))")
	sp := strings.IndexByte(body, ' ')
	if sp < 0 {
		return "", 0, false
	}
	sk, term := body[:sp], strings.TrimSpace(body[sp+1:])
	depth := 0
	for _, ch := range term {
		if ch == '(' {
			depth++
		} else if ch == ')' {
			depth--
		}
		if depth < 0 {
			return "", 0, false
		}
	}
	if depth != 0 || term == "" {
		return "", 0, false
	}
	k := strings.LastIndex(text, "(check-sat)")
	if k < 0 {
		return "", 0, false
	}
	for n, cs := range []string{fmt.Sprintf("(assert (= %s %s))", sk, term), fmt.Sprintf("(assert (< %s %s))", sk, term)} {
		f2 := fmt.Sprintf("%s.split%d.smt2", file, n)
		os.WriteFile(f2, []byte(text[:k]+cs+"\n"+text[k:]), 0o644)
		r, _, m := runSolver(solvers[0], f2, secs)
		os.Remove(f2)
		ms += m
		if r != "unsat" {
			return "", ms, false
		}
	}
	return "unsat", ms, true
}

func firstLines(s string, n int) string {
	l := strings.Split(strings.TrimSpace(s), "\n")
	if len(l) > n {
		l = l[:n]
	}
	return strings.Join(l, " | ")
}

func (o *Obligation) ok() bool {
	if o.ExpectSat {
		return o.Result != "unsat" && o.Result != "error"
	}
	return o.Result == "unsat"
}

var symRe = regexp.MustCompile(`[A-Za-z_][A-Za-z0-9_.!$]*`)

// smtLines: the raw prelude lines of the contract files, minus those that mention struct sorts that this
// function never uses (their declarations do not exist in this query) or symbols defined by skipped lines.
func (c *Ctx) smtLines() []string {
	if c.smtCache != nil {
		return c.smtCache
	}
	declared := map[string]bool{}
	for _, n := range c.structNames {
		declared[n] = true
	}
	skipped := map[string]bool{}
	out := []string{}
	for _, l := range c.SS.Smt {
		skip := false
		for _, sym := range symRe.FindAllString(l, -1) {
			if strings.HasPrefix(sym, "S_") && !declared[sym] {
				skip = true
			}
			if skipped[sym] {
				skip = true
			}
		}
		if skip {
			f := strings.Fields(strings.TrimLeft(l, "("))
			if len(f) >= 2 && strings.HasPrefix(f[0], "de") {
				skipped[f[1]] = true
			}
			continue
		}
		out = append(out, l)
	}
	c.smtCache = out
	return out
}
