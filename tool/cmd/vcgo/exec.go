package main

import (
	"os"
	"runtime/debug"
	"fmt"
	"time"
	"go/token"
	"go/types"
	"sort"
	"strings"

	"golang.org/x/tools/go/ssa"
)

// ---------------------------------------------------------------------------
// Verification of one function
// ---------------------------------------------------------------------------

type abortPath struct{ reason string }

func (c *Ctx) posOf(p token.Pos) string {
	if !p.IsValid() {
		return ""
	}
	pp := c.P.Prog.Fset.Position(p)
	return fmt.Sprintf("%s:%d", strings.TrimPrefix(pp.Filename, c.P.Dir+"/"), pp.Line)
}

// addObl records a proof obligation - unless the path is inside the body of a loop declared `loop K abstract`
// (such a loop is cut like any other, but what happens inside its body is not verified; reported as an assumption).
func (c *Ctx) addObl(s *State, o *Obligation) {
	if s != nil {
		if k := s.inAbstractLoop(); k > 0 {
			// a shallow loop's body is explored for its ghost asserts and for the effect clause (`forbids`)
			if ls := c.Spec.Loops[k]; !(ls != nil && ls.Shallow && (strings.HasPrefix(o.Kind, "assert@") || strings.HasPrefix(o.Kind, "forbidden-call@") || strings.HasPrefix(o.Kind, "forbids-callee@"))) {
				c.skippedAbs[k]++
				return
			}
		}
	}
	c.Obls = append(c.Obls, o)
}

func (s *State) inAbstractLoop() int {
	fr := s.Frame
	if fr == nil || s.C.Spec == nil {
		return 0
	}
	for fr.Caller != nil {
		fr = fr.Caller
	}
	li := s.C.loopInfo(fr.Fn)
	if li == nil {
		return 0
	}
	for _, l := range li.loops {
		ls := s.C.Spec.Loops[l.Ordinal]
		if ls == nil || !ls.Abstract {
			continue
		}
		if fr.Entered[l.Head] && l.Body[fr.Block] && fr.Block != l.Head {
			return l.Ordinal
		}
	}
	return 0
}

func (s *State) oblige(kind, desc, pos string, goal Term) {
	if goal == "true" {
		// still count it: trivially discharged
	}
	c := s.C
	base := c.Key + "/" + kind
	o := &Obligation{Name: base, Kind: kind, Func: c.Key, Desc: desc, Pos: pos, Path: s.Path, Goal: goal, PathID: s.PathID}
	c.addObl(s, o)
}

// obligeExpr proves a contract clause: split into goals, each with its own hypotheses.
func (s *State) obligeExpr(kind, desc, pos string, env *SpecEnv, x Expr, where string) {
	gs, err := env.evalGoals(x)
	if err != nil {
		panic(evalErr(fmt.Sprintf("%s: %v", where, err)))
	}
	for i, g := range gs {
		path := s.Path
		for _, p := range g.Pre {
			if p != "true" {
				path = path.push("(assert " + p + ")")
			}
		}
		k := kind
		if len(gs) > 1 {
			k = fmt.Sprintf("%s.c%d", kind, i+1)
		}
		o := &Obligation{Name: s.C.Key + "/" + k, Kind: k, Func: s.C.Key, Desc: desc, Pos: pos, Path: path, Goal: g.Goal, PathID: s.PathID}
		s.C.addObl(s, o)
	}
}

func (s *State) abstracted(reason string) {
	s.Abstracted = append(s.Abstracted, reason)
	s.C.Unmodelled[reason] = true
}

func (c *Ctx) verify() (err error) {
	defer func() {
		if r := recover(); r != nil {
			if e, ok := r.(evalErr); ok {
				err = fmt.Errorf("%s: contract error: %s", c.Key, string(e))
				return
			}
			if a, ok := r.(abortPath); ok {
				err = fmt.Errorf("%s: %s", c.Key, a.reason)
				return
			}
			panic(r)
		}
	}()
	fn := c.Fn
	if len(fn.Blocks) == 0 {
		return fmt.Errorf("%s has no body", c.Key)
	}
	s := &State{C: c, Heap: Heap{}, Cells: map[*Cell]Term{}, CellLocs: map[*Cell]*Loc{}, Ghost: map[string]TV{}}
	for _, b := range fn.Blocks {
		for _, ins := range b.Instrs {
			if bo, ok := ins.(*ssa.BinOp); ok {
				switch bo.Op {
				case token.AND, token.OR, token.XOR, token.SHL, token.SHR, token.AND_NOT:
					if bt := c.basicInt(bo.Type()); bt != nil && bitsOf(bt) == 8 && isUnsigned(bt) {
						c.usesBits = true
					}
				}
			}
		}
	}
	c.declare("WM!0", "Int")
	s.WM = "WM!0"
	s.assert("(>= WM!0 0)")
	fr := c.newFrame(fn, nil)
	fr.Spec = c.Spec
	s.Frame = fr
	// parameters
	for _, p := range fn.Params {
		v := s.freshOf("p_"+p.Name(), p.Type())
		fr.Params = append(fr.Params, v)
		fr.Vals[p] = v
	}
	for _, fv := range fn.FreeVars {
		// free variables of a closure under verification: pointers to captured cells
		pt := fv.Type().(*types.Pointer)
		r := s.freshOf("fv_"+fv.Name(), fv.Type())
		s.assert(fmt.Sprintf("(> %s 0)", r))
		fr.Vals[fv] = c.ptrLoc(r, pt.Elem())
	}
	c.paramTerms = fr.Params
	s.Old = s.snapshot()
	// ghost variables
	env0 := c.funcEnv(s, fr, true)
	for _, gv := range append(append([]QVar{}, c.SS.GlobalGhosts...), c.Spec.GhostVars...) {
		if _, dup := s.Ghost[gv.Name]; dup {
			continue
		}
		_, sort := env0.resolveType(gv.Type)
		name := s.freshConst("g_"+gv.Name, sort)
		s.Ghost[gv.Name] = specTV(name, sort)
	}
	s.Old.Ghost = map[string]TV{}
	for k, v := range s.Ghost {
		s.Old.Ghost[k] = v
	}
	// preconditions
	for i, r := range c.Spec.Requires {
		env := c.funcEnv(s, fr, true)
		t, e := env.evalBool(r.E)
		if e != nil {
			return fmt.Errorf("%s:%d: requires #%d: %v", r.File, r.Line, i+1, e)
		}
		s.assert(t)
	}
	for _, u := range c.Spec.Uses {
		if err := s.useAxiom(u); err != nil {
			return err
		}
	}
	// vacuity
	c.addObl(s, &Obligation{Name: c.Key + "/vac", Kind: "vac", Func: c.Key, Desc: "preconditions satisfiable", Path: s.Path, Goal: "false", ExpectSat: true})
	s.runGhost(fr, "entry")
	work := []*State{s}
	deadline := time.Now().Add(90 * time.Second)
	for len(work) > 0 {
		if time.Now().After(deadline) {
			c.Undecided = append(c.Undecided, "symbolic execution exceeded its 90 s budget")
			return nil
		}
		st := work[len(work)-1]
		work = work[:len(work)-1]
		c.paths++
		if c.paths > c.maxPaths {
			c.Undecided = append(c.Undecided, fmt.Sprintf("path cap %d reached", c.maxPaths))
			return nil
		}
		next := c.run(st)
		work = append(work, next...)
	}
	// a ghost statement whose anchor no path ever reached says nothing (a misspelt callee, a call that is gone):
	// the clauses that rely on it would hold for the wrong reason
	hasAbstract := false
	for _, ls := range c.Spec.Loops {
		if ls.Abstract {
			hasAbstract = true
		}
	}
	for _, g := range c.Spec.Ghost {
		if c.ghostFired[g] {
			continue
		}
		if hasAbstract {
			c.noteOnce(fmt.Sprintf("ghost statement at `%s` was not reached (the function has abstracted loops)", g.Anchor))
			continue
		}
		// (empty path: the state `s` has been run to the end of the first path, which may be an infeasible one - with
		// its assumptions `false` would be provable and the unreached anchor would go unnoticed)
		c.Obls = append(c.Obls, &Obligation{Name: fmt.Sprintf("%s/ghost-anchor@%s", c.Key, sanitize(g.Anchor)), Kind: "ghost-anchor", Func: c.Key,
			Desc: "the ghost statement anchored at `" + g.Anchor + "` is reached on at least one path: " + g.Src, Pos: fmt.Sprintf("%s:%d", g.File, g.Line), Path: nil, Goal: "false"})
	}
	return nil
}

func (c *Ctx) newFrame(fn *ssa.Function, caller *Frame) *Frame {
	d := 0
	if caller != nil {
		d = caller.Depth + 1
	}
	return &Frame{Fn: fn, Vals: map[ssa.Value]Value{}, Block: fn.Blocks[0], Caller: caller, Entered: map[*ssa.BasicBlock]bool{}, CallCount: map[string]int{}, Depth: d,
		LoopOld: map[*ssa.BasicBlock]*Snapshot{}, LoopVariant: map[*ssa.BasicBlock]string{}, LoopFrames: map[*ssa.BasicBlock]map[string]*loopFrame{}, LoopWM: map[*ssa.BasicBlock]Term{}}
}

// funcEnv builds the spec environment for the function under verification.
// entry=true: parameter names denote entry values (requires/ensures); else locals are read from their cells.
func (c *Ctx) funcEnv(s *State, fr *Frame, entry bool) *SpecEnv {
	fn := fr.Fn
	pkg := c.pkgOf(fn)
	old := &SpecEnv{S: s, C: c, Heap: s.Old.Heap, Cells: s.Old.Cells, Vars: map[string]TV{}, Pkg: pkg, Ghost: s.Ghost}
	env := &SpecEnv{S: s, C: c, Heap: s.Heap, Cells: s.Cells, Vars: map[string]TV{}, Pkg: pkg, Ghost: s.Ghost, Old: old}
	if s.Old != nil {
		env.Ghost0 = s.Old.Ghost
		old.Ghost0 = s.Old.Ghost
	}
	top := fr
	for top.Caller != nil {
		top = top.Caller
	}
	for i, p := range top.Fn.Params {
		var tv TV
		switch v := top.Params[i].(type) {
		case string:
			tv = c.mkTV(v, p.Type())
		case *Loc:
			tv = TV{Loc: v, Ty: p.Type(), Sort: "Int"}
		}
		old.Vars[p.Name()] = tv
		if i == 0 && top.Fn.Signature.Recv() != nil {
			old.Vars["this"] = tv
		}
		// positional names (arg0, arg1, ...), as used by contracts of function types
		ai := i
		if top.Fn.Signature.Recv() != nil {
			ai = i - 1
		}
		if ai >= 0 {
			old.Vars[fmt.Sprintf("arg%d", ai)] = tv
			env.Vars[fmt.Sprintf("arg%d", ai)] = tv
		}
		if entry {
			env.Vars[p.Name()] = tv
			if i == 0 && top.Fn.Signature.Recv() != nil {
				env.Vars["this"] = tv
			}
		}
	}
	loc := func(name string) *Loc { return c.findLocal(top, name) }
	env.Locals = loc
	// inside old(...) only heap dereferences refer to the entry state; local variables keep their current values
	// (parameter names denote the entry values of the parameters)
	old.Locals = loc
	old.Cells = s.Cells
	if !entry {
		if top.Fn.Signature.Recv() != nil && len(top.Fn.Params) > 0 {
			if l := c.findLocal(top, top.Fn.Params[0].Name()); l != nil {
				t, ty := s.loadIn(s.Heap, s.Cells, l)
				env.Vars["this"] = c.mkTV(t, ty)
			}
		}
	}
	return env
}

func (c *Ctx) pkgOf(fn *ssa.Function) *types.Package {
	for f := fn; f != nil; f = f.Parent() {
		if f.Pkg != nil {
			return f.Pkg.Pkg
		}
		if o := f.Origin(); o != nil && o.Pkg != nil {
			return o.Pkg.Pkg
		}
	}
	return nil
}

// findLocal: the most recently created local cell named name in frame fr (on this path).
func (c *Ctx) findLocal(fr *Frame, name string) *Loc {
	want := name
	ord := -1
	if j := strings.Index(name, "#"); j >= 0 {
		want = name[:j]
		fmt.Sscanf(name[j+1:], "%d", &ord)
	}
	// a variable captured by the closure under verification
	for _, fv := range fr.Fn.FreeVars {
		if fv.Name() == want {
			if l, ok := fr.Vals[fv].(*Loc); ok {
				return l
			}
		}
	}
	var best *Loc
	bestID := -1
	k := 0
	// deterministic order: by allocation order in function
	for _, b := range fr.Fn.Blocks {
		for _, ins := range b.Instrs {
			a, ok := ins.(*ssa.Alloc)
			if !ok || a.Comment != want {
				continue
			}
			k++
			v, ok := fr.Vals[a]
			if !ok {
				continue
			}
			l, ok := v.(*Loc)
			if !ok {
				continue
			}
			if ord > 0 {
				if k == ord {
					return l
				}
				continue
			}
			id := 0
			if l.Cell != nil {
				id = l.Cell.id
			} else {
				id = 1 << 30
			}
			if id >= bestID {
				best, bestID = l, id
			}
		}
	}
	return best
}

func (s *State) useAxiom(name string) error {
	c := s.C
	ax, ok := c.SS.Axioms[name]
	if !ok {
		return fmt.Errorf("%s: unknown axiom/lemma %q", c.Key, name)
	}
	env := &SpecEnv{S: s, C: c, Heap: s.Heap, Cells: s.Cells, Vars: map[string]TV{}, Pkg: c.findPackage(ax.Pkg, c.pkgOf(c.Fn)), Ghost: map[string]TV{}}
	t, err := env.evalBool(ax.E)
	if err != nil {
		return fmt.Errorf("%s:%d: %s %s: %v", ax.File, ax.Line, map[bool]string{true: "lemma", false: "axiom"}[ax.IsLemma], name, err)
	}
	s.assert(t)
	c.usedAxioms[name] = true
	if !ax.IsLemma {
		c.assume("axiom " + name + ": " + ax.Src)
	}
	return nil
}

// ---------------------------------------------------------------------------
// Symbolic execution
// ---------------------------------------------------------------------------

func (s *State) get(v ssa.Value) Value {
	c := s.C
	switch v := v.(type) {
	case *ssa.Const:
		t, ok := c.constTerm(v)
		if !ok {
			panic(abortPath{"unsupported constant " + v.String()})
		}
		return t
	case *ssa.Global:
		return &Loc{Kind: LocGlobal, Glob: v, Ty: v.Type().(*types.Pointer).Elem()}
	case *ssa.Function:
		return &FuncRef{v}
	case *ssa.Builtin:
		return &BuiltinRef{v.Name()}
	}
	if x, ok := s.Frame.Vals[v]; ok {
		return x
	}
	if fv, ok := v.(*ssa.FreeVar); ok {
		if s.Frame.Closure != nil {
			for i, f := range s.Frame.Fn.FreeVars {
				if f == fv {
					return s.Frame.Closure.Bindings[i]
				}
			}
		}
	}
	panic(abortPath{fmt.Sprintf("value %s (%T) has no binding", v.Name(), v)})
}

func (s *State) term(v ssa.Value) Term {
	x := s.get(v)
	switch x := x.(type) {
	case string:
		return x
	case *Loc:
		return s.locAsTerm(x)
	case *FuncRef:
		n := "fn!" + sanitize(x.Fn.String())
		s.C.declare(n, "Int")
		return n
	case *Closure:
		n := s.freshConst("closure", "Int")
		s.assert("(> " + n + " 0)")
		return n
	}
	panic(abortPath{fmt.Sprintf("value %s has no first-order representation (%T)", v.Name(), x)})
}

func (s *State) locAsTerm(l *Loc) Term {
	if (l.Kind == LocObj || l.Kind == LocBox || l.Kind == LocArr) && len(l.Path) == 0 {
		return l.Ref
	}
	if l.Kind == LocLocal && len(l.Path) == 0 {
		// address of a local cell escaping into first-order data: give it an identity, contents are no longer tracked precisely
		s.abstracted("address of local variable " + l.Cell.name + " stored as data")
		n := s.freshConst("addr_"+l.Cell.name, "Int")
		s.assert("(> " + n + " 0)")
		return n
	}
	s.abstracted("interior pointer stored as data")
	n := s.freshConst("iptr", "Int")
	s.assert("(> " + n + " 0)")
	return n
}

// toLoc interprets a pointer-typed SSA value as a location.
func (s *State) toLoc(v ssa.Value) *Loc {
	x := s.get(v)
	switch x := x.(type) {
	case *Loc:
		return x
	case string:
		pt, ok := s.C.under(v.Type()).(*types.Pointer)
		if !ok {
			panic(abortPath{"toLoc of non-pointer " + v.Name()})
		}
		return s.C.ptrLoc(x, pt.Elem())
	}
	panic(abortPath{"toLoc: unsupported value"})
}

func (s *State) set(v ssa.Value, x Value) {
	if t, ok := x.(string); ok && len(t) >= 48 {
		vt := v.Type()
		if cl, isCall := v.(*ssa.Call); isCall {
			vt = callResultType(cl)
		}
		if _, isTuple := vt.(*types.Tuple); !isTuple && vt != nil {
			x = s.name(v.Name(), s.C.sortOf(vt), t)
		}
	}
	s.Frame.Vals[v] = x
}

var cellCounter int

func (s *State) newCell(name string, t types.Type) *Cell {
	cellCounter++
	return &Cell{id: cellCounter, ty: t, name: name}
}

// run executes one path until it ends or branches; returns the successor states.
func (c *Ctx) run(s *State) (out []*State) {
	defer func() {
		if r := recover(); r != nil {
			if a, ok := r.(abortPath); ok {
				c.Undecided = append(c.Undecided, fmt.Sprintf("path %d aborted: %s", s.PathID, a.reason))
				out = nil
				return
			}
			if e, ok := r.(evalErr); ok {
				if os.Getenv("VCGO_TRACE") != "" {
					debug.PrintStack()
				}
				c.Undecided = append(c.Undecided, fmt.Sprintf("contract evaluation: %s", string(e)))
				out = nil
				return
			}
			panic(r)
		}
	}()
	steps := 0
	for {
		fr := s.Frame
		if k := s.inAbstractLoop(); fr.PC == 0 && fr.Caller == nil && k > 0 && !c.Spec.Loops[k].Shallow {
			// the body of a loop declared abstract is not explored (its effects are the havoc at the loop head; what
			// returns from inside the body would have to establish is not checked - stated with the assumption)
			return nil
		}
		if fr.PC == 0 {
			// block entry: loop head handling
			if li := c.loopInfo(fr.Fn); li != nil {
				if l := li.byHead[fr.Block]; l != nil && fr.Caller == nil {
					if done := s.atLoopHead(l); done {
						return nil
					}
				} else if l != nil && fr.Caller != nil {
					panic(abortPath{"loop in inlined function " + fr.Fn.Name()})
				}
			}
		}
		if fr.PC >= len(fr.Block.Instrs) {
			panic(abortPath{"fell off block"})
		}
		ins := fr.Block.Instrs[fr.PC]
		fr.PC++
		steps++
		if steps > 200000 {
			panic(abortPath{"step cap"})
		}
		next, stop := s.exec(ins)
		if stop {
			return next
		}
	}
}

func (s *State) jump(b *ssa.BasicBlock) {
	fr := s.Frame
	fr.Prev = fr.Block
	fr.Block = b
	fr.PC = 0
}

// exec executes one instruction. If stop is true the current state is finished and next holds the successor states.
func (s *State) exec(ins ssa.Instruction) (next []*State, stop bool) {
	c := s.C
	fr := s.Frame
	switch ins := ins.(type) {
	case *ssa.DebugRef:
	case *ssa.Alloc:
		s.execAlloc(ins)
	case *ssa.Store:
		l := s.toLoc(ins.Addr)
		s.nilCheck(l, ins.Pos(), ins)
		if l.Kind == LocLocal && len(l.Path) == 0 {
			delete(s.CellLocs, l.Cell)
			if pv, ok := s.get(ins.Val).(*Loc); ok && !((pv.Kind == LocObj || pv.Kind == LocBox || pv.Kind == LocArr) && len(pv.Path) == 0) {
				// an interior pointer kept in a local variable stays an engine-level location
				s.CellLocs[l.Cell] = pv
				s.Cells[l.Cell] = "0"
				return nil, false
			}
		}
		s.store(l, s.termFor(ins.Val, c.pathType(l.Ty, l.Path)))
	case *ssa.UnOp:
		s.execUnOp(ins)
	case *ssa.BinOp:
		s.set(ins, s.binop(ins))
	case *ssa.Convert:
		s.set(ins, s.convert(ins))
	case *ssa.ChangeType:
		s.set(ins, s.get(ins.X))
	case *ssa.ChangeInterface:
		s.set(ins, s.get(ins.X))
	case *ssa.MakeInterface:
		s.set(ins, s.makeInterface(ins.X, s.get(ins.X)))
	case *ssa.TypeAssert:
		s.execTypeAssert(ins)
	case *ssa.Extract:
		t := s.get(ins.Tuple).(*Tuple)
		s.Frame.Vals[ins] = t.Vals[ins.Index]
	case *ssa.Field:
		x := s.term(ins.X)
		st := c.structOf(ins.X.Type())
		s.set(ins, fmt.Sprintf("(%s %s)", c.fieldSel(c.structSort(ins.X.Type(), st), st.Field(ins.Field).Name(), ins.Field), x))
	case *ssa.FieldAddr:
		l := s.toLoc(ins.X)
		s.nilCheck(l, ins.Pos(), ins)
		target := c.pathType(l.Ty, l.Path)
		fr.Vals[ins] = l.with(PathSel{Field: ins.Field, Cont: target})
	case *ssa.IndexAddr:
		s.execIndexAddr(ins)
	case *ssa.Index:
		// array value or string indexing
		x := s.term(ins.X)
		i := s.term(ins.Index)
		switch u := c.under(ins.X.Type()).(type) {
		case *types.Array:
			s.safety("safe-idx", ins, fmt.Sprintf("(and (>= %s 0) (< %s %d))", i, i, u.Len()))
			s.set(ins, fmt.Sprintf("(select %s %s)", x, i))
		default:
			s.safety("safe-idx", ins, fmt.Sprintf("(and (>= %s 0) (< %s (gs.len %s)))", i, i, x))
			s.set(ins, fmt.Sprintf("(gs.at %s %s)", x, i))
		}
	case *ssa.Lookup:
		s.execLookup(ins)
	case *ssa.Slice:
		s.execSlice(ins)
	case *ssa.MakeSlice:
		s.execMakeSlice(ins)
	case *ssa.MakeMap:
		m := c.under(ins.Type()).(*types.Map)
		r := s.newRef("map")
		dn, vn, ln, ds, vs, ls := c.mapComps(m)
		s.setComp(dn, ds, fmt.Sprintf("(store %s %s ((as const (Array %s Bool)) false))", s.comp(dn, ds), r, c.sortOf(m.Key())))
		s.setComp(vn, vs, fmt.Sprintf("(store %s %s ((as const (Array %s %s)) %s))", s.comp(vn, vs), r, c.sortOf(m.Key()), c.sortOf(m.Elem()), c.zero(m.Elem())))
		s.setComp(ln, ls, fmt.Sprintf("(store %s %s 0)", s.comp(ln, ls), r))
		s.set(ins, r)
	case *ssa.MapUpdate:
		s.execMapUpdate(ins)
	case *ssa.MakeClosure:
		cl := &Closure{Fn: ins.Fn.(*ssa.Function)}
		for _, b := range ins.Bindings {
			cl.Bindings = append(cl.Bindings, s.get(b))
		}
		fr.Vals[ins] = cl
	case *ssa.MakeChan:
		s.set(ins, s.newRef("chan"))
	case *ssa.Phi:
		for i, p := range fr.Block.Preds {
			if p == fr.Prev {
				fr.Vals[ins] = s.get(ins.Edges[i])
				return nil, false
			}
		}
		panic(abortPath{"phi without matching predecessor"})
	case *ssa.Call:
		return s.execCall(ins)
	case *ssa.Defer:
		fr.Defers = append(fr.Defers, ins)
		var vals []Value
		for _, a := range ins.Call.Args {
			vals = append(vals, s.get(a))
		}
		fr.DeferVals = append(fr.DeferVals, vals)
	case *ssa.RunDefers:
		// the deferred calls run here, last first: a call with a static callee (a function, a method, a closure
		// literal - which may assign the named results) is executed like a call at this point; this instruction is
		// re-executed for the remaining ones. Calls through function values and interfaces are not executed (noted).
		for len(fr.Defers) > 0 {
			d := fr.Defers[len(fr.Defers)-1]
			fr.Defers = fr.Defers[:len(fr.Defers)-1]
			fr.DeferVals = fr.DeferVals[:len(fr.DeferVals)-1]
			name := calleeName(&d.Call)
			if isNoopCall(name) {
				continue
			}
			if _, isB := d.Call.Value.(*ssa.Builtin); d.Call.StaticCallee() == nil && !isB || os.Getenv("VCGO_NODEFER") != "" {
				s.abstracted("deferred call " + name + " not executed")
				continue
			}
			fr.PC--
			fake := &ssa.Call{Call: d.Call}
			return s.doCall(fake, &fake.Call)
		}
	case *ssa.Go:
		top := fr
		for top.Caller != nil {
			top = top.Caller
		}
		if top.Spec != nil && top.Spec.GoSequential {
			// A-CONC-FJ (declared with `gosequential`): the goroutines this function starts are joined before it
			// returns and do not interfere with each other or with the code between spawn and join; each is executed
			// here, at its spawn point
			c.assume("A-CONC-FJ: goroutines started by " + c.Key + " are executed at their spawn point (fork-join, no interference)")
			fake := &ssa.Call{Call: ins.Call}
			return s.doCall(fake, &fake.Call)
		}
		s.abstracted("go statement in " + fr.Fn.Name())
		s.havocAllHeap("go statement")
	case *ssa.Send:
		s.abstracted("channel send")
		if cl, top := s.chanInvFor(ins.Chan.Type()); cl != nil {
			env := c.funcEnv(s, top, false)
			env.Vars["v"] = s.valueTV(s.get(ins.X), ins.X.Type())
			s.obligeExpr("chan-send", cl.Src, c.posOf(ins.Pos()), env, cl.E, fmt.Sprintf("%s:%d: channel invariant", cl.File, cl.Line))
		}
	case *ssa.Select:
		// A-CHAN: which case fires, and what is received, is arbitrary
		s.abstracted("select statement: the chosen case and received values are arbitrary")
		idx := s.freshConst("sel", "Int")
		lo := "0"
		if !ins.Blocking {
			lo = "(- 1)"
		}
		s.assert(fmt.Sprintf("(and (<= %s %s) (< %s %d))", lo, idx, idx, len(ins.States)))
		vals := []Value{idx, s.freshConst("selok", "Bool")}
		for _, st := range ins.States {
			if st.Dir == types.RecvOnly {
				vals = append(vals, s.freshOf("selrecv", st.Chan.Type().Underlying().(*types.Chan).Elem()))
			}
		}
		fr.Vals[ins] = &Tuple{vals}
	case *ssa.Range:
		s.execRange(ins)
	case *ssa.Next:
		return s.execNext(ins)
	case *ssa.Jump:
		s.jump(fr.Block.Succs[0])
	case *ssa.If:
		cond := s.term(ins.Cond)
		tb, fb := fr.Block.Succs[0], fr.Block.Succs[1]
		switch cond {
		case "true":
			s.jump(tb)
			return nil, false
		case "false":
			s.jump(fb)
			return nil, false
		}
		s2 := s.clone()
		c.n++
		s2.PathID = c.n
		s.assert(cond)
		s.jump(tb)
		s2.assert("(not " + cond + ")")
		s2.jump(fb)
		return []*State{s2, s}, true
	case *ssa.Return:
		return s.execReturn(ins)
	case *ssa.Panic:
		// ghost anchor "panic#k": the k-th explicit panic statement of the function (source order)
		if s.Frame.Caller == nil {
			k := 0
			for _, b := range s.Frame.Fn.Blocks {
				for _, i2 := range b.Instrs {
					if p2, ok := i2.(*ssa.Panic); ok {
						if p2.Pos().IsValid() {
							k++
						}
						if p2 == ins {
							s.runGhost(s.Frame, fmt.Sprintf("panic#%d", k))
						}
					}
				}
			}
		}
		s.safety("safe-panic", ins, "false")
		return nil, true
	default:
		panic(abortPath{fmt.Sprintf("unsupported instruction %T: %s", ins, ins)})
	}
	return nil, false
}

// termFor converts a value to a term suitable for storing into a location of type t.
func (s *State) termFor(v ssa.Value, t types.Type) Term {
	x := s.get(v)
	switch x := x.(type) {
	case *Closure:
		return s.closureTerm(x)
	case *FuncRef:
		return s.term(v)
	}
	return s.term(v)
}

var closureReg = map[string]*Closure{}

// closureTerm gives a closure an identity so that it can be stored in data and called later.
func (s *State) closureTerm(cl *Closure) Term {
	n := s.freshConst("closure_"+cl.Fn.Name(), "Int")
	s.assert("(> " + n + " 0)")
	closureReg[n] = cl
	return n
}

func (s *State) safety(kind string, ins ssa.Instruction, goal Term) {
	c := s.C
	if s.Frame.Spec != nil && s.Frame.Spec.NoSafety[kind] {
		return
	}
	if c.Spec != nil && c.Spec.NoSafety[kind] {
		return
	}
	where := ""
	if s.Frame.Caller != nil {
		where = " (inlined " + s.Frame.Fn.Name() + ")"
	}
	s.oblige(kind, strings.TrimSpace(ins.String())+where, c.posOf(insPos(ins)), goal)
	// after the check the property may be assumed on this path
	if goal != "false" {
		s.assert(goal)
	}
}

func insPos(ins ssa.Instruction) token.Pos {
	if p := ins.Pos(); p.IsValid() {
		return p
	}
	// fall back to any position in the block
	if b := ins.Block(); b != nil {
		for _, i := range b.Instrs {
			if i.Pos().IsValid() {
				return i.Pos()
			}
		}
	}
	return token.NoPos
}

func (s *State) nilCheck(l *Loc, pos token.Pos, ins ssa.Instruction) {
	if len(l.Path) != 0 {
		return // checked when the base location was formed
	}
	switch l.Kind {
	case LocObj, LocBox, LocArr:
		if strings.Contains(l.Ref, "!") && (strings.HasPrefix(l.Ref, "new") || strings.HasPrefix(l.Ref, "alloc")) {
			return
		}
		s.safety("safe-nil", ins, fmt.Sprintf("(not (= %s 0))", l.Ref))
	}
}

func (s *State) execAlloc(a *ssa.Alloc) {
	c := s.C
	t := a.Type().(*types.Pointer).Elem()
	name := a.Comment
	if name == "" {
		name = a.Name()
	}
	if at, ok := c.under(t).(*types.Array); ok {
		// arrays always live in element storage so that they can be sliced
		r := s.newRef("alloc_" + name)
		cn, cs := c.elemComp(at.Elem())
		s.setComp(cn, cs, fmt.Sprintf("(store %s %s %s)", s.comp(cn, cs), r, c.zero(t)))
		s.Frame.Vals[a] = &Loc{Kind: LocArr, Ref: r, Ty: t}
		return
	}
	if !a.Heap {
		cell := s.newCell(name, t)
		s.Cells[cell] = c.zero(t)
		s.Frame.Vals[a] = &Loc{Kind: LocLocal, Cell: cell, Ty: t}
		return
	}
	r := s.newRef("new_" + name)
	l := c.ptrLoc(r, t)
	s.store(l, c.zero(t))
	s.Frame.Vals[a] = l
}

func (s *State) execUnOp(u *ssa.UnOp) {
	c := s.C
	switch u.Op {
	case token.MUL:
		l := s.toLoc(u.X)
		s.nilCheck(l, u.Pos(), u)
		if l.Kind == LocLocal && len(l.Path) == 0 {
			if pv, ok := s.CellLocs[l.Cell]; ok {
				s.Frame.Vals[u] = pv
				return
			}
		}
		t, ty := s.load(l)
		// loads from the heap produce values with their type's range
		if l.Kind != LocLocal {
			t = s.name(u.Name(), c.sortOf(ty), t)
			for _, f := range c.wf(t, ty, 0) {
				s.assert(f)
			}
			// whatever is stored in the heap was allocated before now - and before the function was entered if
			// the component has not been written since
			if s.locCompInitial(l) {
				wm := s.WM
				s.WM = "WM!0"
				s.assumeAllocated(t, ty)
				s.WM = wm
			} else {
				s.assumeAllocated(t, ty)
			}
		}
		if bb := c.basicInt(ty); bb != nil && bitsOf(bb) == 8 && isUnsigned(bb) && c.usesBits {
			t = s.name(u.Name(), "Int", t)
			s.assert(fmt.Sprintf("(= %s (val8 %s))", t, t))
		}
		s.Frame.Vals[u] = t
		if _, ok := c.under(ty).(*types.Signature); ok {
			// function values loaded from cells may be engine closures
			if l.Kind == LocLocal {
				if cl, ok := closureReg[t]; ok {
					s.Frame.Vals[u] = cl
				}
			} else if cl, ok := closureReg[t]; ok {
				s.Frame.Vals[u] = cl
			}
		}
	case token.NOT:
		s.set(u, "(not "+s.term(u.X)+")")
	case token.SUB:
		x := s.term(u.X)
		if c.sortOf(u.Type()) == "Real" {
			s.set(u, "(- "+x+")")
			return
		}
		s.set(u, s.arith(u, u.Type(), "(- "+x+")"))
	case token.XOR:
		x := s.term(u.X)
		b := c.basicInt(u.Type())
		if b != nil && isUnsigned(b) && bitsOf(b) == 8 {
			s.set(u, fmt.Sprintf("(bnot8 %s)", x))
		} else if b != nil && isUnsigned(b) {
			_, hi, _ := intRange(b)
			s.set(u, fmt.Sprintf("(- %s %s)", hi.String(), x))
		} else {
			s.set(u, fmt.Sprintf("(- (- %s) 1)", x))
		}
	case token.ARROW:
		s.abstracted("channel receive")
		var rv Value
		okT := "true"
		if u.CommaOk {
			tt := u.Type().(*types.Tuple)
			rv = s.freshOf("recv", tt.At(0).Type())
			ok := s.freshConst("recvok", "Bool")
			okT = ok
			s.Frame.Vals[u] = &Tuple{[]Value{rv, ok}}
		} else {
			rv = s.freshOf("recv", u.Type())
			s.Frame.Vals[u] = rv
		}
		if cl, top := s.chanInvFor(u.X.Type()); cl != nil {
			// a received value is one that was sent (when the channel was not closed and empty)
			env := c.funcEnv(s, top, false)
			env.Vars["v"] = s.valueTV(rv, c.under(u.X.Type()).(*types.Chan).Elem())
			t, err := env.evalBool(cl.E)
			if err != nil {
				panic(evalErr(fmt.Sprintf("%s:%d: chaninv: %v", cl.File, cl.Line, err)))
			}
			s.assert(fmt.Sprintf("(=> %s %s)", okT, t))
			c.assume("A-CHAN: a value received from a channel of " + typeKey(c.under(u.X.Type()).(*types.Chan).Elem()) + " satisfies the channel invariant checked at every send in " + c.Key)
		}
	default:
		panic(abortPath{"unsupported unary op " + u.Op.String()})
	}
}

// arith post-processes the mathematical result of an integer operation according to the function's mode.
func (s *State) arith(ins ssa.Instruction, t types.Type, r Term) Term {
	c := s.C
	b := c.basicInt(t)
	if b == nil {
		return r
	}
	lo, hi, ok := intRange(b)
	if !ok {
		return r
	}
	mode := ""
	if s.Frame.Spec != nil {
		mode = s.Frame.Spec.Arith
	} else if c.Spec != nil {
		mode = c.Spec.Arith
	}
	switch mode {
	case "checked":
		r = s.name("ar", "Int", r)
		s.safety("ovf", ins, fmt.Sprintf("(and (<= %s %s) (<= %s %s))", smtInt(lo), r, r, smtInt(hi)))
		return r
	case "exact", "wrap":
		return s.wrap(r, b)
	}
	c.assume("A-ARITH: machine arithmetic treated as mathematical in " + c.Key)
	return r
}

func (s *State) wrap(r Term, b *types.Basic) Term {
	lo, hi, _ := intRange(b)
	r = s.name("ar", "Int", r)
	m := new(big2).pow(bitsOf(b))
	if isUnsigned(b) {
		return fmt.Sprintf("(mod %s %s)", r, m)
	}
	_ = lo
	return fmt.Sprintf("(let ((w!m (mod %s %s))) (ite (> w!m %s) (- w!m %s) w!m))", r, m, smtInt(hi), m)
}

type big2 struct{}

func (*big2) pow(bits int) string {
	switch bits {
	case 8:
		return "256"
	case 16:
		return "65536"
	case 32:
		return "4294967296"
	}
	return "18446744073709551616"
}

func (s *State) binop(b *ssa.BinOp) Term {
	c := s.C
	xt := b.X.Type()
	x, y := s.term(b.X), s.term(b.Y)
	sortX := c.sortOf(xt)
	switch b.Op {
	case token.EQL, token.NEQ:
		var eq string
		switch sortX {
		case "Slice":
			// only comparison with nil is legal
			other := y
			me := x
			if isNilTerm(x) {
				other, me = x, y
			}
			_ = other
			eq = fmt.Sprintf("(= (s.base %s) 0)", me)
		case "Iface":
			if isNilTerm(y) {
				eq = fmt.Sprintf("(= (i.tag %s) 0)", x)
			} else if isNilTerm(x) {
				eq = fmt.Sprintf("(= (i.tag %s) 0)", y)
			} else {
				eq = fmt.Sprintf("(= %s %s)", x, y)
			}
		default:
			eq = fmt.Sprintf("(= %s %s)", x, y)
			if strings.HasPrefix(x, "strlit!") && strings.HasPrefix(y, "strlit!") {
				// distinct string literals are distinct values
				if x == y {
					eq = "true"
				} else {
					eq = "false"
				}
			}
		}
		if b.Op == token.NEQ {
			if eq == "true" {
				return "false"
			}
			if eq == "false" {
				return "true"
			}
			return "(not " + eq + ")"
		}
		return eq
	case token.LSS, token.LEQ, token.GTR, token.GEQ:
		if sortX == "Str" {
			switch b.Op {
			case token.LSS:
				return fmt.Sprintf("(gs.lt %s %s)", x, y)
			case token.LEQ:
				return fmt.Sprintf("(not (gs.lt %s %s))", y, x)
			case token.GTR:
				return fmt.Sprintf("(gs.lt %s %s)", y, x)
			default:
				return fmt.Sprintf("(not (gs.lt %s %s))", x, y)
			}
		}
		op := map[token.Token]string{token.LSS: "<", token.LEQ: "<=", token.GTR: ">", token.GEQ: ">="}[b.Op]
		return fmt.Sprintf("(%s %s %s)", op, x, y)
	}
	if sortX == "Str" && b.Op == token.ADD {
		r := s.name("cat", "Str", fmt.Sprintf("(gs.cat %s %s)", x, y))
		s.assert(fmt.Sprintf("(= (gs.len %s) (+ (gs.len %s) (gs.len %s)))", r, x, y))
		return r
	}
	if sortX == "Real" {
		c.assume("A-FLOAT: float64 arithmetic modelled over the reals")
		switch b.Op {
		case token.ADD:
			return fmt.Sprintf("(+ %s %s)", x, y)
		case token.SUB:
			return fmt.Sprintf("(- %s %s)", x, y)
		case token.MUL:
			return fmt.Sprintf("(* %s %s)", x, y)
		case token.QUO:
			return fmt.Sprintf("(/ %s %s)", x, y)
		}
		panic(abortPath{"unsupported float op " + b.Op.String()})
	}
	if sortX == "Bool" {
		switch b.Op {
		case token.AND, token.LAND:
			return fmt.Sprintf("(and %s %s)", x, y)
		case token.OR, token.LOR:
			return fmt.Sprintf("(or %s %s)", x, y)
		}
	}
	bt := c.basicInt(xt)
	if bt == nil {
		panic(abortPath{"binary op on unsupported type " + xt.String()})
	}
	uns := isUnsigned(bt)
	switch b.Op {
	case token.ADD:
		return s.arith(b, b.Type(), fmt.Sprintf("(+ %s %s)", x, y))
	case token.SUB:
		return s.arith(b, b.Type(), fmt.Sprintf("(- %s %s)", x, y))
	case token.MUL:
		if !isLiteral(x) && !isLiteral(y) {
			return s.arith(b, b.Type(), fmt.Sprintf("(nl.mul %s %s)", x, y))
		}
		return s.arith(b, b.Type(), fmt.Sprintf("(* %s %s)", x, y))
	case token.QUO, token.REM:
		s.safety("safe-div", b, fmt.Sprintf("(not (= %s 0))", y))
		nonneg := uns || (isNonNegConst(x) && isPosConst(y))
		if !isLiteral(y) {
			// division by a non-constant: uninterpreted (nonlinear arithmetic derails the solvers); the
			// facts a proof needs are supplied as named axioms (lib/arith.spec)
			if b.Op == token.QUO {
				return fmt.Sprintf("(nl.div %s %s)", x, y)
			}
			return fmt.Sprintf("(nl.mod %s %s)", x, y)
		}
		if b.Op == token.QUO {
			if nonneg {
				return fmt.Sprintf("(div %s %s)", x, y)
			}
			return fmt.Sprintf("(go.div %s %s)", x, y)
		}
		if nonneg {
			return fmt.Sprintf("(mod %s %s)", x, y)
		}
		return fmt.Sprintf("(go.mod %s %s)", x, y)
	case token.SHL:
		if bitsOf(bt) == 8 && uns {
			return fmt.Sprintf("(shl8 %s %s)", x, y)
		}
		r := fmt.Sprintf("(* %s (pow2 %s))", x, y)
		mode := ""
		if s.Frame.Spec != nil {
			mode = s.Frame.Spec.Arith
		}
		if mode == "checked" {
			return s.arith(b, b.Type(), r)
		}
		// shifts wrap exactly (cheap): x<<k mod 2^w
		return s.wrap(r, bt)
	case token.SHR:
		if bitsOf(bt) == 8 && uns {
			return fmt.Sprintf("(shr8 %s %s)", x, y)
		}
		if uns || isNonNegConst(x) {
			return fmt.Sprintf("(div %s (pow2 %s))", x, y)
		}
		// arithmetic shift = floor division
		return fmt.Sprintf("(div %s (pow2 %s))", x, y)
	case token.AND:
		return s.bitAnd(b, bt, x, y)
	case token.OR:
		return s.bitOr(b, bt, x, y)
	case token.XOR:
		if bitsOf(bt) == 8 && uns {
			return fmt.Sprintf("(bxor8 %s %s)", x, y)
		}
		return s.bitFun("bit.xor", bt, x, y)
	case token.AND_NOT:
		if bitsOf(bt) == 8 && uns {
			return fmt.Sprintf("(band8 %s (bnot8 %s))", x, y)
		}
		return s.bitFun("bit.andnot", bt, x, y)
	}
	panic(abortPath{"unsupported binary op " + b.Op.String()})
}

func isNonNegConst(t string) bool {
	if t == "" || t[0] == '(' {
		return false
	}
	for _, r := range t {
		if r < '0' || r > '9' {
			return false
		}
	}
	return true
}
func isPosConst(t string) bool { return isNonNegConst(t) && t != "0" }

func isLiteral(t string) bool {
	if isNonNegConst(t) {
		return true
	}
	return strings.HasPrefix(t, "(- ") && strings.HasSuffix(t, ")") && isNonNegConst(t[3:len(t)-1])
}

// maskBits: if t is the literal 2^k-1 returns k.
func maskBits(t string) (int, bool) {
	if !isNonNegConst(t) {
		return 0, false
	}
	b := parseIntLit(t)
	if b == nil {
		return 0, false
	}
	b1 := new(bigInt).Add(b, bigOne)
	if b1.BitLen() > 0 && new(bigInt).And(b1, b).Sign() == 0 {
		return b1.BitLen() - 1, true
	}
	return 0, false
}

func (s *State) bitAnd(b *ssa.BinOp, bt *types.Basic, x, y Term) Term {
	if bitsOf(bt) == 8 && isUnsigned(bt) {
		return fmt.Sprintf("(band8 %s %s)", x, y)
	}
	if k, ok := maskBits(y); ok && (isUnsigned(bt) || true) {
		return fmt.Sprintf("(mod %s %s)", x, pow2lit(k))
	}
	if k, ok := maskBits(x); ok {
		return fmt.Sprintf("(mod %s %s)", y, pow2lit(k))
	}
	return s.bitFun("bit.and", bt, x, y)
}

func (s *State) bitOr(b *ssa.BinOp, bt *types.Basic, x, y Term) Term {
	// (a << k) | c with c < 2^k  ==  a*2^k + c
	if k, ok := shlConst(b.X); ok && valueBits(b.Y) <= k {
		return fmt.Sprintf("(+ %s %s)", x, y)
	}
	if k, ok := shlConst(b.Y); ok && valueBits(b.X) <= k {
		return fmt.Sprintf("(+ %s %s)", x, y)
	}
	if bitsOf(bt) == 8 && isUnsigned(bt) {
		return fmt.Sprintf("(bor8 %s %s)", x, y)
	}
	// (a << k) | c is a*2^k + c whenever 0 <= c < 2^k at run time
	if k, ok := shlConst(b.X); ok {
		s.C.assume("bitwise operator bit.or is uninterpreted (only range axioms)")
		return fmt.Sprintf("(ite (and (<= 0 %s) (< %s %s)) (+ %s %s) (bit.or %s %s))", y, y, pow2lit(k), x, y, x, y)
	}
	if k, ok := shlConst(b.Y); ok {
		s.C.assume("bitwise operator bit.or is uninterpreted (only range axioms)")
		return fmt.Sprintf("(ite (and (<= 0 %s) (< %s %s)) (+ %s %s) (bit.or %s %s))", x, x, pow2lit(k), x, y, x, y)
	}
	return s.bitFun("bit.or", bt, x, y)
}

func (s *State) bitFun(name string, bt *types.Basic, x, y Term) Term {
	s.C.assume("bitwise operator " + name + " is uninterpreted (only range axioms)")
	return fmt.Sprintf("(%s %s %s)", name, x, y)
}

func shlConst(v ssa.Value) (int, bool) {
	if b, ok := v.(*ssa.BinOp); ok && b.Op == token.SHL {
		if k, ok := b.Y.(*ssa.Const); ok && k.Value != nil {
			if n, ok := constInt(k); ok {
				return n, true
			}
		}
	}
	if cv, ok := v.(*ssa.Convert); ok {
		return shlConst(cv.X)
	}
	return 0, false
}

func constInt(k *ssa.Const) (int, bool) {
	if k.Value == nil {
		return 0, false
	}
	b := parseIntLit(k.Value.ExactString())
	if b == nil || !b.IsInt64() {
		return 0, false
	}
	return int(b.Int64()), true
}

// valueBits: an upper bound on the number of significant bits of an unsigned value, from its SSA shape.
func valueBits(v ssa.Value) int {
	switch v := v.(type) {
	case *ssa.Convert:
		if b, ok := v.X.Type().Underlying().(*types.Basic); ok && b.Info()&types.IsUnsigned != 0 {
			inner := valueBits(v.X)
			if bitsOf(b) < inner {
				return bitsOf(b)
			}
			return inner
		}
	case *ssa.BinOp:
		if v.Op == token.AND {
			if k, ok := v.Y.(*ssa.Const); ok {
				if t := k.Value; t != nil {
					if n, ok := maskBits(t.ExactString()); ok {
						return n
					}
				}
			}
		}
		if v.Op == token.SHR {
			if k, ok := v.Y.(*ssa.Const); ok {
				if n, ok := constInt(k); ok {
					if r := valueBits(v.X) - n; r > 0 {
						return r
					}
					return 0
				}
			}
		}
	case *ssa.Const:
		if v.Value != nil {
			if b := parseIntLit(v.Value.ExactString()); b != nil && b.Sign() >= 0 {
				return b.BitLen()
			}
		}
	}
	if b, ok := v.Type().Underlying().(*types.Basic); ok && b.Info()&types.IsUnsigned != 0 {
		return bitsOf(b)
	}
	return 64
}

func (s *State) convert(cv *ssa.Convert) Value {
	c := s.C
	from, to := cv.X.Type(), cv.Type()
	x := s.term(cv.X)
	fs, ts := c.sortOf(from), c.sortOf(to)
	fb, tb := c.basicInt(from), c.basicInt(to)
	switch {
	case fb != nil && tb != nil:
		flo, fhi, ok1 := intRange(fb)
		tlo, thi, ok2 := intRange(tb)
		if !ok1 || !ok2 || (flo.Cmp(tlo) >= 0 && fhi.Cmp(thi) <= 0) {
			return x
		}
		mode := ""
		if s.Frame.Spec != nil {
			mode = s.Frame.Spec.Arith
		}
		if mode == "checked" {
			x = s.name("cv", "Int", x)
			s.safety("safe-conv", cv, fmt.Sprintf("(and (<= %s %s) (<= %s %s))", smtInt(tlo), x, x, smtInt(thi)))
			return x
		}
		return s.wrap(x, tb)
	case fs == "Int" && ts == "Real":
		c.assume("A-FLOAT: int→float64 conversion is exact")
		return "(to_real " + x + ")"
	case fs == "Real" && ts == "Int":
		c.assume("A-FLOAT: float64→int conversion truncates a real")
		return fmt.Sprintf("(ite (>= %s 0.0) (to_int %s) (- (to_int (- %s))))", x, x, x)
	case fs == "Real" && ts == "Real":
		return x
	case fs == "Slice" && ts == "Str":
		// string(bytes): a copy
		r := s.freshConst("str", "Str")
		cn, cs := c.elemComp(c.under(from).(*types.Slice).Elem())
		A := fmt.Sprintf("(select %s (s.base %s))", s.comp(cn, cs), x)
		s.assert(fmt.Sprintf("(= (gs.len %s) (s.len %s))", r, x))
		q := c.fresh("j")
		s.assert(fmt.Sprintf("(forall ((%s Int)) (=> (and (<= 0 %s) (< %s (s.len %s))) (= (gs.at %s %s) (select %s (idx (s.off %s) %s)))))", q, q, q, x, r, q, A, x, q))
		s.assert(fmt.Sprintf("(= %s (gs.ofbytes (s.base %s) (s.off %s) (s.len %s) %s))", r, x, x, x, A))
		return r
	case fs == "Str" && ts == "Slice":
		base := s.newRef("bytes")
		et := c.under(to).(*types.Slice).Elem()
		cn, cs := c.elemComp(et)
		A := s.freshConst("bytesarr", "(Array Int Int)")
		q := c.fresh("j")
		s.assert(fmt.Sprintf("(forall ((%s Int)) (=> (and (<= 0 %s) (< %s (gs.len %s))) (= (select %s (idx 0 %s)) (gs.at %s %s))))", q, q, q, x, A, q, x, q))
		s.setComp(cn, cs, fmt.Sprintf("(store %s %s %s)", s.comp(cn, cs), base, A))
		return fmt.Sprintf("(mk-slice %s 0 (gs.len %s) (gs.len %s))", base, x, x)
	case fs == "Int" && ts == "Str":
		// string(r): the UTF-8 encoding of the rune, an abstract string of 1..4 bytes determined by the rune
		return fmt.Sprintf("(gs.ofrune %s)", x)
	case fs == ts:
		return x
	}
	panic(abortPath{fmt.Sprintf("unsupported conversion %s -> %s", from, to)})
}

func (s *State) makeInterface(x ssa.Value, v Value) Term {
	c := s.C
	t := x.Type()
	tag := c.tagOf(t)
	if _, isPtr := c.under(t).(*types.Pointer); isPtr {
		return fmt.Sprintf("(mk-iface %s %s)", tag, s.term(x))
	}
	// box the value; identical values box to the same payload so that interface equality is value equality
	cn, cs := c.boxComp(t)
	term := s.term(x)
	fname := "boxof!" + sanitize(typeKey(t))
	c.declareFun(fname, []string{c.sortOf(t)}, "Int")
	r := s.name("box", "Int", fmt.Sprintf("(%s %s)", fname, term))
	s.assert(fmt.Sprintf("(> %s 0)", r))
	s.assert(fmt.Sprintf("(= (select %s %s) %s)", s.comp(cn, cs), r, term))
	return fmt.Sprintf("(mk-iface %s %s)", tag, r)
}

func (s *State) execTypeAssert(ta *ssa.TypeAssert) {
	c := s.C
	x := s.term(ta.X)
	at := ta.AssertedType
	var okT, val Term
	if _, isIface := c.under(at).(*types.Interface); isIface {
		p := "implements!" + sanitize(typeKey(at))
		c.declareFun(p, []string{"Int"}, "Bool")
		okT = fmt.Sprintf("(and (not (= (i.tag %s) 0)) (%s (i.tag %s)))", x, p, x)
		if it := c.under(at).(*types.Interface); it.NumMethods() == 0 {
			okT = fmt.Sprintf("(not (= (i.tag %s) 0))", x)
		}
		val = x
	} else {
		okT = fmt.Sprintf("(= (i.tag %s) %s)", x, c.tagOf(at))
		if _, isPtr := c.under(at).(*types.Pointer); isPtr {
			val = fmt.Sprintf("(i.val %s)", x)
		} else {
			cn, cs := c.boxComp(at)
			val = fmt.Sprintf("(select %s (i.val %s))", s.comp(cn, cs), x)
		}
	}
	if ta.CommaOk {
		zero := c.zero(at)
		okN := s.name("taok", "Bool", okT)
		s.Frame.Vals[ta] = &Tuple{[]Value{fmt.Sprintf("(ite %s %s %s)", okN, val, zero), okN}}
		return
	}
	s.safety("safe-assert", ta, okT)
	s.set(ta, val)
}

func (s *State) execIndexAddr(ia *ssa.IndexAddr) {
	c := s.C
	i := s.term(ia.Index)
	switch u := c.under(ia.X.Type()).(type) {
	case *types.Slice:
		x := s.term(ia.X)
		s.safety("safe-idx", ia, fmt.Sprintf("(and (>= %s 0) (< %s (s.len %s)))", i, i, x))
		s.Frame.Vals[ia] = &Loc{Kind: LocElem, Ref: s.name("base", "Int", fmt.Sprintf("(s.base %s)", x)), Idx: fmt.Sprintf("(idx (s.off %s) %s)", x, i), Ty: u.Elem()}
	case *types.Pointer:
		at := c.under(u.Elem()).(*types.Array)
		l := s.toLoc(ia.X)
		s.nilCheck(l, ia.Pos(), ia)
		s.safety("safe-idx", ia, fmt.Sprintf("(and (>= %s 0) (< %s %d))", i, i, at.Len()))
		if l.Kind == LocArr && len(l.Path) == 0 {
			s.Frame.Vals[ia] = &Loc{Kind: LocElem, Ref: l.Ref, Idx: i, Ty: at.Elem()}
		} else {
			s.Frame.Vals[ia] = l.with(PathSel{IsIdx: true, Idx: i, Cont: u.Elem()})
		}
	default:
		panic(abortPath{"IndexAddr on " + ia.X.Type().String()})
	}
}

func (s *State) execLookup(lk *ssa.Lookup) {
	c := s.C
	switch u := c.under(lk.X.Type()).(type) {
	case *types.Map:
		m := s.term(lk.X)
		k := s.term(lk.Index)
		dn, vn, _, ds, vs, _ := c.mapComps(u)
		has := fmt.Sprintf("(select (select %s %s) %s)", s.comp(dn, ds), m, k)
		val := fmt.Sprintf("(select (select %s %s) %s)", s.comp(vn, vs), m, k)
		// nil map: lookups yield zero
		has = s.name("has", "Bool", fmt.Sprintf("(and (not (= %s 0)) %s)", m, has))
		v := s.name("mv", c.sortOf(u.Elem()), fmt.Sprintf("(ite %s %s %s)", has, val, c.zero(u.Elem())))
		for _, f := range c.wf(v, u.Elem(), 0) {
			s.assert(f)
		}
		if lk.CommaOk {
			s.Frame.Vals[lk] = &Tuple{[]Value{v, has}}
		} else {
			s.Frame.Vals[lk] = v
		}
	default:
		x := s.term(lk.X)
		i := s.term(lk.Index)
		s.safety("safe-idx", lk, fmt.Sprintf("(and (>= %s 0) (< %s (gs.len %s)))", i, i, x))
		v := s.name("ch", "Int", fmt.Sprintf("(gs.at %s %s)", x, i))
		s.assert(fmt.Sprintf("(and (<= 0 %s) (<= %s 255))", v, v))
		s.Frame.Vals[lk] = v
	}
}

func (s *State) execMapUpdate(mu *ssa.MapUpdate) {
	c := s.C
	u := c.under(mu.Map.Type()).(*types.Map)
	m := s.term(mu.Map)
	k := s.term(mu.Key)
	v := s.term(mu.Value)
	s.safety("safe-nil", mu, fmt.Sprintf("(not (= %s 0))", m))
	dn, vn, ln, ds, vs, ls := c.mapComps(u)
	D, V, L := s.comp(dn, ds), s.comp(vn, vs), s.comp(ln, ls)
	had := fmt.Sprintf("(select (select %s %s) %s)", D, m, k)
	s.setComp(ln, ls, fmt.Sprintf("(store %s %s (+ (select %s %s) (ite %s 0 1)))", L, m, L, m, had))
	s.setComp(dn, ds, fmt.Sprintf("(store %s %s (store (select %s %s) %s true))", D, m, D, m, k))
	s.setComp(vn, vs, fmt.Sprintf("(store %s %s (store (select %s %s) %s %s))", V, m, V, m, k, v))
}

func (s *State) execSlice(sl *ssa.Slice) {
	c := s.C
	lo := "0"
	if sl.Low != nil {
		lo = s.term(sl.Low)
	}
	switch u := c.under(sl.X.Type()).(type) {
	case *types.Slice:
		x := s.term(sl.X)
		hi := fmt.Sprintf("(s.len %s)", x)
		if sl.High != nil {
			hi = s.term(sl.High)
		}
		mx := fmt.Sprintf("(s.cap %s)", x)
		if sl.Max != nil {
			mx = s.term(sl.Max)
			s.safety("safe-slice", sl, fmt.Sprintf("(and (<= 0 %s) (<= %s %s) (<= %s %s) (<= %s (s.cap %s)))", lo, lo, hi, hi, mx, mx, x))
		} else {
			s.safety("safe-slice", sl, fmt.Sprintf("(and (<= 0 %s) (<= %s %s) (<= %s (s.cap %s)))", lo, lo, hi, hi, x))
		}
		s.set(sl, fmt.Sprintf("(mk-slice (s.base %s) (+ (s.off %s) %s) (- %s %s) (- %s %s))", x, x, lo, hi, lo, mx, lo))
	case *types.Basic: // string
		x := s.term(sl.X)
		hi := fmt.Sprintf("(gs.len %s)", x)
		if sl.High != nil {
			hi = s.term(sl.High)
		}
		s.safety("safe-slice", sl, fmt.Sprintf("(and (<= 0 %s) (<= %s %s) (<= %s (gs.len %s)))", lo, lo, hi, hi, x))
		r := s.name("sub", "Str", fmt.Sprintf("(gs.sub %s %s %s)", x, lo, hi))
		s.assert(fmt.Sprintf("(= (gs.len %s) (- %s %s))", r, hi, lo))
		c.needStrSub = true
		s.set(sl, r)
	case *types.Pointer:
		at := c.under(u.Elem()).(*types.Array)
		l := s.toLoc(sl.X)
		if l.Kind != LocArr || len(l.Path) != 0 {
			panic(abortPath{"slicing an array that is not a whole allocation"})
		}
		hi := fmt.Sprint(at.Len())
		if sl.High != nil {
			hi = s.term(sl.High)
		}
		s.safety("safe-slice", sl, fmt.Sprintf("(and (<= 0 %s) (<= %s %s) (<= %s %d))", lo, lo, hi, hi, at.Len()))
		s.set(sl, fmt.Sprintf("(mk-slice %s %s (- %s %s) (- %d %s))", l.Ref, lo, hi, lo, at.Len(), lo))
	default:
		panic(abortPath{"slice of " + sl.X.Type().String()})
	}
}

func (s *State) execMakeSlice(ms *ssa.MakeSlice) {
	c := s.C
	ln, cp := s.term(ms.Len), s.term(ms.Cap)
	s.safety("safe-make", ms, fmt.Sprintf("(and (<= 0 %s) (<= %s %s))", ln, ln, cp))
	et := c.under(ms.Type()).(*types.Slice).Elem()
	base := s.newRef("mk")
	cn, cs := c.elemComp(et)
	s.setComp(cn, cs, fmt.Sprintf("(store %s %s ((as const (Array Int %s)) %s))", s.comp(cn, cs), base, c.sortOf(et), c.zero(et)))
	s.set(ms, fmt.Sprintf("(mk-slice %s 0 %s %s)", base, ln, cp))
}

func (s *State) execRange(r *ssa.Range) {
	c := s.C
	m, ok := c.under(r.X.Type()).(*types.Map)
	if !ok {
		panic(abortPath{"range over string"})
	}
	// iterator = ghost visited set
	it := s.freshConst("visited", "(Array "+c.sortOf(m.Key())+" Bool)")
	s.assert(fmt.Sprintf("(= %s ((as const (Array %s Bool)) false))", it, c.sortOf(m.Key())))
	cell := s.newCell("$visited", nil)
	s.Cells[cell] = it
	s.Frame.Vals[r] = &Loc{Kind: LocLocal, Cell: cell}
	c.rangeCells[r] = cell
}

func (s *State) execNext(n *ssa.Next) ([]*State, bool) {
	c := s.C
	if n.IsString {
		panic(abortPath{"range over string"})
	}
	rg := n.Iter.(*ssa.Range)
	m := c.under(rg.X.Type()).(*types.Map)
	mt := s.term(rg.X)
	itLoc := s.get(rg).(*Loc)
	visited := s.Cells[itLoc.Cell]
	dn, vn, _, ds, vs, _ := c.mapComps(m)
	k := s.freshOf("rk", m.Key())
	ok := s.freshConst("rok", "Bool")
	dom := fmt.Sprintf("(select %s %s)", s.comp(dn, ds), mt)
	// ok <=> some key of the (current) domain is unvisited; k is such a key
	q := c.fresh("k")
	ks := c.sortOf(m.Key())
	s.assert(fmt.Sprintf("(=> %s (and (not (= %s 0)) (select %s %s) (not (select %s %s))))", ok, mt, dom, k, visited, k))
	s.assert(fmt.Sprintf("(=> (not %s) (or (= %s 0) (forall ((%s %s)) (=> (select %s %s) (select %s %s)))))", ok, mt, q, ks, dom, q, visited, q))
	v := s.name("rv", c.sortOf(m.Elem()), fmt.Sprintf("(select (select %s %s) %s)", s.comp(vn, vs), mt, k))
	for _, f := range c.wf(v, m.Elem(), 0) {
		s.assert(f)
	}
	nv := s.name("visited", "(Array "+ks+" Bool)", fmt.Sprintf("(ite %s (store %s %s true) %s)", ok, visited, k, visited))
	s.Cells[itLoc.Cell] = nv
	s.Frame.Vals[n] = &Tuple{[]Value{ok, k, v}}
	return nil, false
}

func (s *State) runDefers() {
	fr := s.Frame
	for i := len(fr.Defers) - 1; i >= 0; i-- {
		d := fr.Defers[i]
		name := calleeName(&d.Call)
		if isNoopCall(name) {
			continue
		}
		s.abstracted("deferred call " + name + " not executed")
	}
	fr.Defers = nil
	fr.DeferVals = nil
}

func (s *State) execReturn(r *ssa.Return) ([]*State, bool) {
	c := s.C
	fr := s.Frame
	var vals []Value
	for _, x := range r.Results {
		vals = append(vals, s.get(x))
	}
	if fr.Caller != nil && fr.OnReturn != nil {
		s.Frame = fr.Caller
		return fr.OnReturn(s, vals)
	}
	if fr.Caller != nil {
		// return into the caller frame
		call := fr.CallIns.(ssa.Value)
		s.Frame = fr.Caller
		switch len(vals) {
		case 0:
		case 1:
			s.Frame.Vals[call] = vals[0]
		default:
			s.Frame.Vals[call] = &Tuple{vals}
		}
		return nil, false
	}
	// top-level return: postconditions
	c.addObl(s, &Obligation{Name: fmt.Sprintf("%s/reach@return:%s", c.Key, c.posOf(r.Pos())), Kind: "reach", Func: c.Key, Desc: "this return is reachable on at least one path (otherwise its postconditions hold vacuously)", Pos: c.posOf(r.Pos()), Path: s.Path, Goal: "false", ExpectSat: true, PathID: s.PathID})
	env := c.funcEnv(s, fr, true)
	sig := fr.Fn.Signature
	resVars := map[string]TV{}
	for i, v := range vals {
		rt := sig.Results().At(i).Type()
		var tv TV
		switch v := v.(type) {
		case string:
			tv = c.mkTV(v, rt)
		case *Loc:
			tv = TV{Loc: v, Ty: rt, Sort: "Int"}
			if (v.Kind == LocObj || v.Kind == LocBox) && len(v.Path) == 0 {
				tv.T = v.Ref
			}
		case *Closure:
			tv = TV{T: s.closureTerm(v), Ty: rt, Sort: "Int"}
		default:
			tv = TV{T: s.term(r.Results[i]), Ty: rt, Sort: c.sortOf(rt)}
		}
		resVars[fmt.Sprintf("result%d", i)] = tv
		if n := sig.Results().At(i).Name(); n != "" && n != "_" {
			resVars[n] = tv
		}
		if len(vals) == 1 {
			resVars["result"] = tv
		}
	}
	// ghost statements anchored at the return see the returned values (result, result0, ...)
	s.ghostExtra = resVars
	s.runGhost(fr, "return")
	s.ghostExtra = nil
	env = c.funcEnv(s, fr, true)
	for k, v := range resVars {
		env.Vars[k] = v
	}
	s.checkFrame(env, c.posOf(r.Pos()))
	for i, e := range c.Spec.Ensures {
		s.obligeExpr(fmt.Sprintf("post#%d", i+1), e.Src, c.posOf(r.Pos()), env, e.E, fmt.Sprintf("%s:%d: ensures #%d", e.File, e.Line, i+1))
	}
	return nil, true
}

// runGhost executes the ghost statements anchored at the given point.
func (s *State) runGhost(fr *Frame, anchor string) {
	c := s.C
	if fr.Spec == nil || fr.Caller != nil {
		return
	}
	for _, g := range fr.Spec.Ghost {
		if g.Anchor != anchor {
			// `before F#*` / `after F#*`: every occurrence of the call
			if !(strings.HasSuffix(g.Anchor, "#*") && strings.HasPrefix(anchor, strings.TrimSuffix(g.Anchor, "*")) && !strings.Contains(anchor[len(g.Anchor)-1:], "#")) {
				continue
			}
		}
		if c.ghostFired == nil {
			c.ghostFired = map[*GhostStmt]bool{}
		}
		c.ghostFired[g] = true
		env := c.funcEnv(s, fr, anchor == "entry") // at entry the parameters have not been copied to their local cells yet
		for k, v := range s.ghostExtra {
			env.Vars[k] = v
		}
		switch g.Kind {
		case "assert":
			t, err := env.evalBool(g.E)
			if err != nil && strings.Contains(err.Error(), "unknown identifier") {
				s.oblige("assert@"+sanitize(anchor), g.Src+" ("+err.Error()+")", fmt.Sprintf("%s:%d", g.File, g.Line), "false")
				continue
			}
			if err != nil {
				panic(evalErr(fmt.Sprintf("%s:%d: %v", g.File, g.Line, err)))
			}
			s.obligeExpr("assert@"+sanitize(anchor), g.Src, fmt.Sprintf("%s:%d", g.File, g.Line), env, g.E, fmt.Sprintf("%s:%d", g.File, g.Line))
			s.assert(t)
		case "assume":
			t, err := env.evalBool(g.E)
			if err != nil {
				panic(evalErr(fmt.Sprintf("%s:%d: %v", g.File, g.Line, err)))
			}
			c.assume("assume in " + c.Key + ": " + g.Src)
			before := s.Path
			s.assert(t)
			// an assumption that contradicts what is known would make the rest of the path vacuous
			c.addObl(s, &Obligation{Name: fmt.Sprintf("%s/vac-assume@%s", c.Key, sanitize(anchor)), Kind: "vac", Func: c.Key, Desc: "assumptions still satisfiable after `assume " + g.Src + "`", Pos: fmt.Sprintf("%s:%d", g.File, g.Line), Path: s.Path, Before: before, Goal: "false", ExpectSat: true, PathID: s.PathID})
		case "set":
			v, err := env.evalAny(g.E)
			if err != nil && strings.Contains(err.Error(), "unknown identifier") {
				// the code no longer has a local this ghost statement names: the ghost variable becomes arbitrary and
				// the mismatch is reported as a failed obligation (not as an undecided check)
				if old, ok := s.Ghost[g.Var]; ok {
					s.Ghost[g.Var] = TV{T: s.freshConst("g_"+g.Var, old.Sort), Sort: old.Sort, Ty: old.Ty}
				}
				s.oblige("ghost-bind@"+sanitize(anchor), "ghost statement `set "+g.Var+" = "+g.Src+"` can be evaluated ("+err.Error()+")", fmt.Sprintf("%s:%d", g.File, g.Line), "false")
				continue
			}
			if err != nil {
				panic(evalErr(fmt.Sprintf("%s:%d: %v", g.File, g.Line, err)))
			}
			old, ok := s.Ghost[g.Var]
			if !ok {
				panic(evalErr(fmt.Sprintf("%s:%d: unknown ghost variable %s", g.File, g.Line, g.Var)))
			}
			s.Ghost[g.Var] = TV{T: s.name("g_"+g.Var, old.Sort, v.T), Sort: old.Sort, Ty: old.Ty}
		}
	}
}

func (s *State) havocAllHeap(reason string) {
	// A-CAPTURE: the variables a closure under verification has captured live in heap boxes that only the closures
	// capturing them and the declaring function write; code called from here without a contract is not given their
	// addresses, so their values survive the havoc
	type kept struct {
		l *Loc
		t Term
	}
	var keep []kept
	top := s.Frame
	for top != nil && top.Caller != nil {
		top = top.Caller
	}
	if top != nil && len(top.Fn.FreeVars) > 0 {
		for _, fv := range top.Fn.FreeVars {
			if l, ok := top.Vals[fv].(*Loc); ok && l.Kind == LocBox && len(l.Path) == 0 {
				if _, isStruct := s.C.under(l.Ty).(*types.Struct); isStruct {
					continue
				}
				t, _ := s.load(l)
				keep = append(keep, kept{l, t})
			}
		}
		if len(keep) > 0 {
			s.C.assume("A-CAPTURE: captured variables of the closure under verification are not written by called code that has no contract")
		}
	}
	if top != nil && top.Spec != nil && top.Spec.GoSequential {
		// locals of a `gosequential` function that are shared only with the goroutines it starts (executed inline) and
		// with its own deferred closures: no code without a contract ever holds their address
		n := 0
		for _, a := range s.C.privateBoxes(top.Fn) {
			if l, ok := top.Vals[a].(*Loc); ok && l.Kind == LocBox && len(l.Path) == 0 {
				if _, isStruct := s.C.under(l.Ty).(*types.Struct); isStruct {
					continue
				}
				t, _ := s.load(l)
				keep = append(keep, kept{l, t})
				n++
			}
		}
		if n > 0 {
			s.C.assume("A-CAPTURE: locals shared only with the goroutines started by " + s.C.Key + " keep their values across calls without a contract")
		}
	}
	// A-PRIVATE: the backing array of a local slice variable that only this function ever indexes, re-slices and
	// appends to (its value is never handed to a call, stored in the heap or captured) cannot be reached by called
	// code: its cells keep their contents across a havoc
	type keptRow struct {
		cn, cs string
		base   Term
		row    Term
	}
	var rows []keptRow
	if top != nil {
		for _, a := range s.C.privateSliceVars(top.Fn) {
			l, ok := top.Vals[a].(*Loc)
			if !ok || l.Kind != LocLocal {
				continue
			}
			v, live := s.Cells[l.Cell]
			if !live {
				continue
			}
			st, ok := s.C.under(l.Cell.ty).(*types.Slice)
			if !ok {
				continue
			}
			cn, cs := s.C.elemComp(st.Elem())
			base := s.name("pv_base", "Int", fmt.Sprintf("(s.base %s)", v))
			row := s.name("pv_row", "(Array Int "+s.C.sortOf(st.Elem())+")", fmt.Sprintf("(select %s %s)", s.comp(cn, cs), base))
			rows = append(rows, keptRow{cn, cs, base, row})
		}
		for _, a := range s.C.privateMapVars(top.Fn) {
			l, ok := top.Vals[a].(*Loc)
			if !ok || l.Kind != LocLocal {
				continue
			}
			v, live := s.Cells[l.Cell]
			if !live {
				continue
			}
			mt, ok := s.C.under(l.Cell.ty).(*types.Map)
			if !ok {
				continue
			}
			dn, vn, ln, ds, vs, ls := s.C.mapComps(mt)
			base := s.name("pv_map", "Int", v)
			for _, p := range [][2]string{{dn, ds}, {vn, vs}, {ln, ls}} {
				_, rs := arraySorts(p[1])
				row := s.name("pv_mrow", rs, fmt.Sprintf("(select %s %s)", s.comp(p[0], p[1]), base))
				rows = append(rows, keptRow{p[0], p[1], base, row})
			}
		}
		if len(rows) > 0 {
			s.C.assume("A-PRIVATE: backing arrays of local slices and local maps that never leave " + s.C.Key + " are not written by called code")
		}
	}
	// A-FINAL: a field that no code writes once its object exists keeps its value, for every object that exists now
	type keptComp struct {
		n, sort string
		old     Term
	}
	var finals []keptComp
	wmNow := s.WM
	{
		var fn []string
		for n := range s.Heap {
			if s.C.finalComps[n] {
				fn = append(fn, n)
			}
		}
		sort.Strings(fn)
		for _, n := range fn {
			if srt, ok := s.C.compSorts[n]; ok {
				finals = append(finals, keptComp{n, srt, s.Heap[n]})
			}
		}
		if len(finals) > 0 {
			s.C.assume("A-FINAL: struct fields that no code of the repository writes after their object has been set up keep their values across calls without a contract (decided on the SSA of the loaded packages, plus a scan of the repository's sources for exported fields)")
		}
	}
	defer func() {
		for _, k := range keep {
			s.store(k.l, k.t)
		}
		for _, fc := range finals {
			cur := s.comp(fc.n, fc.sort)
			q := s.C.fresh("r")
			s.assert(fmt.Sprintf("(forall ((%s Int)) (! (=> (<= %s %s) (= (select %s %s) (select %s %s))) :pattern ((select %s %s))))", q, q, wmNow, cur, q, fc.old, q, cur, q))
		}
		for _, r := range rows {
			cur := s.comp(r.cn, r.cs)
			s.setComp(r.cn, r.cs, fmt.Sprintf("(ite (= %s 0) %s (store %s %s %s))", r.base, cur, cur, r.base, r.row))
		}
	}()
	names := make([]string, 0, len(s.Heap))
	for k := range s.Heap {
		if k != "\x00epoch" {
			names = append(names, k)
		}
	}
	sort.Strings(names)
	for _, k := range names {
		delete(s.Heap, k)
	}
	s.C.epochs++
	s.HavocEpoch = s.C.epochs
	s.Heap["\x00epoch"] = fmt.Sprint(s.HavocEpoch)
	nw := s.freshConst("WM", "Int")
	s.assert(fmt.Sprintf("(>= %s %s)", nw, s.WM))
	s.WM = nw
}

// ---------------------------------------------------------------------------
// Frame check: at every return, whatever existed at entry and is not named by `modifies` is unchanged.
// ---------------------------------------------------------------------------

type modTarget struct {
	Comp string
	Ref  Term
}

// modTargets resolves a modifies entry (evaluated in env) to heap components and references.
func (s *State) modTargets(env *SpecEnv, m string) (out []modTarget, heap bool) {
	c := s.C
	m = strings.TrimSpace(m)
	if m == "heap" {
		return nil, true
	}
	if strings.HasPrefix(m, "every ") {
		// every T.f: field f of every object of type T (a whole heap component)
		cn, _, err := c.everyComp(env, m)
		if err != nil {
			panic(evalErr(err.Error()))
		}
		return []modTarget{{cn, ""}}, false
	}
	star := strings.HasSuffix(m, "[*]")
	m = strings.TrimSuffix(m, "[*]")
	all := strings.HasSuffix(m, ".*")
	m = strings.TrimSuffix(m, ".*")
	ex, err := parseSpecExpr(m)
	if err != nil {
		panic(evalErr(fmt.Sprintf("modifies %q: %v", m, err)))
	}
	locComps := func(l *Loc, whole bool) {
		switch l.Kind {
		case LocObj:
			if len(l.Path) > 0 {
				cn, _, _ := c.fieldComp(l.Ty, l.Path[0].Field)
				out = append(out, modTarget{cn, l.Ref})
			} else if st := c.structOf(l.Ty); st != nil {
				for i := 0; i < st.NumFields(); i++ {
					cn, _, _ := c.fieldComp(l.Ty, i)
					out = append(out, modTarget{cn, l.Ref})
				}
			}
		case LocBox:
			cn, _ := c.boxComp(l.Ty)
			out = append(out, modTarget{cn, l.Ref})
		case LocElem:
			cn, _ := c.elemComp(l.Ty)
			out = append(out, modTarget{cn, l.Ref})
		case LocArr:
			cn, _ := c.elemComp(c.under(l.Ty).(*types.Array).Elem())
			out = append(out, modTarget{cn, l.Ref})
		case LocGlobal:
			cn, _, _ := c.globalComp(l.Glob)
			out = append(out, modTarget{cn, ""})
		}
	}
	if star {
		v, err := env.evalAny(ex)
		if err != nil {
			panic(evalErr(fmt.Sprintf("modifies %q: %v", m, err)))
		}
		switch u := c.under(v.Ty).(type) {
		case *types.Slice:
			cn, _ := c.elemComp(u.Elem())
			out = append(out, modTarget{cn, fmt.Sprintf("(s.base %s)", v.T)})
		case *types.Map:
			dn, vn, ln, _, _, _ := c.mapComps(u)
			out = append(out, modTarget{dn, v.T}, modTarget{vn, v.T}, modTarget{ln, v.T})
		}
		return out, false
	}
	if id, ok := ex.(*EIdent); ok {
		if _, isGhost := s.Ghost[id.Name]; isGhost {
			return nil, false
		}
		// a captured variable named in the modifies clause of a closure: its box
		if !all && !star {
			top := s.topFrame()
			for _, fv := range top.Fn.FreeVars {
				if fv.Name() == id.Name {
					if l, ok := top.Vals[fv].(*Loc); ok {
						locComps(l, false)
						return out, false
					}
				}
			}
		}
	}
	if u, ok := ex.(*EUn); ok && u.Op == "*" {
		ex = u.X
		all = true
	}
	if all {
		v, err := env.evalAny(ex)
		if err != nil {
			panic(evalErr(fmt.Sprintf("modifies %q: %v", m, err)))
		}
		if v.Loc != nil {
			locComps(v.Loc, true)
		} else if p, ok := c.under(v.Ty).(*types.Pointer); ok {
			locComps(c.ptrLoc(v.T, p.Elem()), true)
		}
		return out, false
	}
	if sel, ok := ex.(*ESel); ok {
		l, err := env.addrSafe(sel)
		if l != nil {
			locComps(l, false)
			return out, false
		}
		panic(evalErr(fmt.Sprintf("modifies %q: %v", m, err)))
	}
	var gk []string
	for k := range s.Ghost {
		gk = append(gk, k)
	}
	panic(evalErr(fmt.Sprintf("modifies %q: unsupported location form (%T; ghosts %v)", m, ex, gk)))
}

func (s *State) checkFrame(env *SpecEnv, pos string) {
	c := s.C
	if c.Spec.NoSafety["frame"] {
		c.assume("frame of " + c.Key + " is not checked (nosafety frame)")
		return
	}
	allowed := map[string][]Term{}
	for _, m := range c.Spec.Modifies {
		if c.ghostNames()[strings.TrimSpace(m)] {
			continue
		}
		ts, heap := s.modTargets(env.Old, m)
		if heap {
			return
		}
		for _, t := range ts {
			allowed[t.Comp] = append(allowed[t.Comp], t.Ref)
		}
	}
	if s.HavocEpoch != 0 {
		s.oblige("frame", "whole heap was havocked by unmodelled code; `modifies heap` is required", pos, "false")
		return
	}
	var names []string
	for k := range s.Heap {
		if k != "\x00epoch" {
			names = append(names, k)
		}
	}
	sort.Strings(names)
	for _, n := range names {
		cur := s.Heap[n]
		init := fmt.Sprintf("|%s@0|", n)
		if cur == init {
			continue
		}
		if strings.HasPrefix(n, "G:") {
			if _, ok := allowed[n]; ok {
				continue
			}
			s.oblige("frame:"+n, "global not listed in modifies is unchanged", pos, fmt.Sprintf("(= %s %s)", cur, init))
			continue
		}
		whole := false
		for _, a := range allowed[n] {
			if a == "" {
				whole = true // `modifies every T.f`
			}
		}
		if whole {
			continue
		}
		r := c.fresh("fr")
		c.declare(r, "Int")
		path := s.Path.push(fmt.Sprintf("(assert (and (< 0 %s) (<= %s WM!0)))", r, r))
		for _, a := range allowed[n] {
			path = path.push(fmt.Sprintf("(assert (not (= %s %s)))", r, a))
		}
		o := &Obligation{Name: c.Key + "/frame:" + n, Kind: "frame:" + n, Func: c.Key, Desc: "objects that existed at entry and are not named in modifies keep their " + n, Pos: pos, Path: path,
			Goal: fmt.Sprintf("(= (select %s %s) (select %s %s))", cur, r, init, r), PathID: s.PathID}
		c.addObl(s, o)
	}
}

// locCompInitial: the heap component the location reads from still has its entry value.
func (s *State) locCompInitial(l *Loc) bool {
	c := s.C
	var cn string
	switch l.Kind {
	case LocObj:
		if len(l.Path) == 0 {
			return false
		}
		cn, _, _ = c.fieldComp(l.Ty, l.Path[0].Field)
	case LocBox:
		cn, _ = c.boxComp(l.Ty)
	case LocElem:
		cn, _ = c.elemComp(l.Ty)
	default:
		return false
	}
	return s.HavocEpoch == 0 && s.Heap[cn] == "|"+cn+"@0|"
}

// everyComp resolves `every T.f` (T a struct type of the contract's package, or pkg.T) to the heap component of that field.
func (c *Ctx) everyComp(env *SpecEnv, m string) (name, sort string, err error) {
	m = strings.TrimSpace(strings.TrimPrefix(strings.TrimSpace(m), "every "))
	j := strings.LastIndex(m, ".")
	if j < 0 {
		return "", "", fmt.Errorf("modifies every %s: expected T.field", m)
	}
	var ty types.Type
	func() {
		defer func() {
			if r := recover(); r != nil {
				err = fmt.Errorf("modifies every %s: %v", m, r)
			}
		}()
		ty, _ = env.resolveType(m[:j])
	}()
	if err != nil {
		return "", "", err
	}
	if ty == nil || c.structOf(ty) == nil {
		return "", "", fmt.Errorf("modifies every %s: unknown type %s", m, m[:j])
	}
	path := fieldPath(ty, m[j+1:])
	if len(path) != 1 {
		return "", "", fmt.Errorf("modifies every %s: %s has no field %s", m, m[:j], m[j+1:])
	}
	name, sort, _ = c.fieldComp(ty, path[0])
	return name, sort, nil
}

// chanInvFor: the channel invariant the function under verification declares for channels of this element type.
func (s *State) chanInvFor(chT types.Type) (*Clause, *Frame) {
	c := s.C
	top := s.Frame
	for top.Caller != nil {
		top = top.Caller
	}
	if top.Spec == nil || len(top.Spec.ChanInvs) == 0 {
		return nil, nil
	}
	ch, ok := c.under(chT).(*types.Chan)
	if !ok {
		return nil, nil
	}
	name := typeKey(ch.Elem())
	if n, ok := types.Unalias(ch.Elem()).(*types.Named); ok {
		name = n.Obj().Name()
	}
	if cl, ok := top.Spec.ChanInvs[name]; ok {
		return cl, top
	}
	return nil, nil
}

// privateBoxes: heap-allocated locals of fn whose address is used only by loads and stores in fn itself and by
// closures that fn only starts as goroutines, defers or calls directly.
func (c *Ctx) privateBoxes(fn *ssa.Function) []*ssa.Alloc {
	if c.privBoxes == nil {
		c.privBoxes = map[*ssa.Function][]*ssa.Alloc{}
	}
	if v, ok := c.privBoxes[fn]; ok {
		return v
	}
	closureOK := func(mc *ssa.MakeClosure) bool {
		refs := mc.Referrers()
		if refs == nil {
			return false
		}
		for _, r := range *refs {
			switch r := r.(type) {
			case *ssa.Go:
				if r.Call.Value != mc {
					return false
				}
			case *ssa.Defer:
				if r.Call.Value != mc {
					return false
				}
			case *ssa.Call:
				if r.Call.Value != mc {
					return false
				}
			case *ssa.DebugRef:
			default:
				return false
			}
		}
		return true
	}
	var out []*ssa.Alloc
	for _, b := range fn.Blocks {
		for _, ins := range b.Instrs {
			a, ok := ins.(*ssa.Alloc)
			if !ok || !a.Heap || a.Referrers() == nil {
				continue
			}
			priv := true
			for _, r := range *a.Referrers() {
				switch r := r.(type) {
				case *ssa.Store:
					if r.Val == a {
						priv = false
					}
				case *ssa.UnOp, *ssa.DebugRef:
				case *ssa.MakeClosure:
					if !closureOK(r) {
						priv = false
					}
				default:
					priv = false
				}
			}
			if priv {
				out = append(out, a)
			}
		}
	}
	c.privBoxes[fn] = out
	return out
}

// privateSliceVars: local (non-escaping) variables of slice type whose values are only ever nil, make(...), an append to
// or a re-slice of the variable itself, and whose loaded values are only indexed, measured, ranged over, re-sliced,
// appended to (with the result going back into the variable) or returned.
func (c *Ctx) privateSliceVars(fn *ssa.Function) []*ssa.Alloc {
	if c.privSlices == nil {
		c.privSlices = map[*ssa.Function][]*ssa.Alloc{}
	}
	if v, ok := c.privSlices[fn]; ok {
		return v
	}
	var out []*ssa.Alloc
	for _, b := range fn.Blocks {
		for _, ins := range b.Instrs {
			a, ok := ins.(*ssa.Alloc)
			if !ok || a.Heap || a.Referrers() == nil {
				continue
			}
			pt, ok := a.Type().Underlying().(*types.Pointer)
			if !ok {
				continue
			}
			if _, ok := c.under(pt.Elem()).(*types.Slice); !ok {
				continue
			}
			if c.sliceVarPrivate(a) {
				out = append(out, a)
			}
		}
	}
	if os.Getenv("VCGO_TRACE") != "" {
		for _, a := range out {
			fmt.Fprintf(os.Stderr, "private slice var: %s in %s\n", a.Comment, fn.Name())
		}
	}
	c.privSlices[fn] = out
	return out
}

func (c *Ctx) sliceVarPrivate(a *ssa.Alloc) bool {
	isLoadOfA := func(v ssa.Value) bool {
		u, ok := v.(*ssa.UnOp)
		return ok && u.Op == token.MUL && u.X == a
	}
	// a value derived from the variable (a load, a re-slice of one, an append to one) may only flow back into it
	var derivedOK func(v ssa.Value, depth int) bool
	elemAddrOK := func(ia ssa.Value) bool {
		refs := ia.Referrers()
		if refs == nil {
			return false
		}
		for _, r := range *refs {
			switch r := r.(type) {
			case *ssa.UnOp:
				if r.Op != token.MUL {
					return false
				}
			case *ssa.Store:
				if r.Val == ia {
					return false
				}
			case *ssa.DebugRef:
			case *ssa.FieldAddr:
				fr := r.Referrers()
				if fr == nil {
					return false
				}
				for _, q := range *fr {
					switch q := q.(type) {
					case *ssa.UnOp:
						if q.Op != token.MUL {
							return false
						}
					case *ssa.Store:
						if q.Val == ssa.Value(r) {
							return false
						}
					case *ssa.DebugRef:
					default:
						return false
					}
				}
			default:
				return false
			}
		}
		return true
	}
	derivedOK = func(v ssa.Value, depth int) bool {
		if depth > 6 {
			return false
		}
		refs := v.Referrers()
		if refs == nil {
			return false
		}
		for _, r := range *refs {
			switch r := r.(type) {
			case *ssa.Store:
				if r.Val == v && r.Addr != ssa.Value(a) {
					return false
				}
				if r.Addr == v {
					return false
				}
			case *ssa.IndexAddr:
				if r.X != v || !elemAddrOK(r) {
					return false
				}
			case *ssa.Slice:
				if r.X != v || !derivedOK(r, depth+1) {
					return false
				}
			case *ssa.Range, *ssa.DebugRef, *ssa.Return:
			case *ssa.Call:
				bi, ok := r.Call.Value.(*ssa.Builtin)
				if !ok {
					return false
				}
				switch bi.Name() {
				case "len", "cap":
				case "append":
					if len(r.Call.Args) == 0 || r.Call.Args[0] != v {
						return false
					}
					for _, x := range r.Call.Args[1:] {
						if x == v {
							return false
						}
					}
					if !derivedOK(r, depth+1) {
						return false
					}
				default:
					return false
				}
			case *ssa.BinOp:
				// comparison with nil
			default:
				return false
			}
		}
		return true
	}
	for _, r := range *a.Referrers() {
		switch r := r.(type) {
		case *ssa.Store:
			if r.Val == ssa.Value(a) {
				return false
			}
			switch x := r.Val.(type) {
			case *ssa.Const:
				if !x.IsNil() {
					return false
				}
			case *ssa.MakeSlice:
				if !derivedOK(x, 0) {
					return false
				}
			case *ssa.Call:
				bi, ok := x.Call.Value.(*ssa.Builtin)
				if !ok || bi.Name() != "append" || len(x.Call.Args) == 0 || !isLoadOfA(x.Call.Args[0]) {
					return false
				}
			case *ssa.Slice:
				if na, ok := x.X.(*ssa.Alloc); ok && (na.Comment == "makeslice" || na.Comment == "slicelit") && na.Referrers() != nil {
					// make([]T, const) / []T{...}: a new array that only this slice expression (and the literal's
					// element initialisers) refer to
					for _, q := range *na.Referrers() {
						switch q := q.(type) {
						case *ssa.Slice:
							if q != x {
								return false
							}
						case *ssa.IndexAddr:
							if !elemAddrOK(q) {
								return false
							}
						case *ssa.DebugRef:
						default:
							return false
						}
					}
					if !derivedOK(x, 0) {
						return false
					}
				} else if !isLoadOfA(x.X) {
					return false
				}
			default:
				return false
			}
		case *ssa.UnOp:
			if r.Op != token.MUL || !derivedOK(r, 0) {
				return false
			}
		case *ssa.DebugRef:
		default:
			return false
		}
	}
	return true
}

// privateMapVars: local variables of map type that only ever hold a map made in this function and whose value is only
// used for lookups, updates, deletes, len, range and as a returned value.
func (c *Ctx) privateMapVars(fn *ssa.Function) []*ssa.Alloc {
	if c.privMaps == nil {
		c.privMaps = map[*ssa.Function][]*ssa.Alloc{}
	}
	if v, ok := c.privMaps[fn]; ok {
		return v
	}
	var out []*ssa.Alloc
	for _, b := range fn.Blocks {
		for _, ins := range b.Instrs {
			a, ok := ins.(*ssa.Alloc)
			if !ok || a.Heap || a.Referrers() == nil {
				continue
			}
			pt, ok := a.Type().Underlying().(*types.Pointer)
			if !ok {
				continue
			}
			if _, ok := c.under(pt.Elem()).(*types.Map); !ok {
				continue
			}
			priv := true
			useOK := func(v ssa.Value) bool {
				refs := v.Referrers()
				if refs == nil {
					return false
				}
				for _, r := range *refs {
					switch r := r.(type) {
					case *ssa.MapUpdate:
						if r.Map != v {
							return false
						}
					case *ssa.Lookup:
						if r.X != v {
							return false
						}
					case *ssa.Range, *ssa.Return, *ssa.DebugRef:
					case *ssa.Store:
						if r.Val == v && r.Addr != ssa.Value(a) && !resultCell(r.Addr) {
							return false
						}
					case *ssa.Call:
						bi, ok := r.Call.Value.(*ssa.Builtin)
						if !ok || (bi.Name() != "len" && bi.Name() != "delete" && bi.Name() != "clear") {
							return false
						}
					case *ssa.BinOp:
					default:
						return false
					}
				}
				return true
			}
			for _, r := range *a.Referrers() {
				switch r := r.(type) {
				case *ssa.Store:
					if r.Val == ssa.Value(a) {
						priv = false
						break
					}
					switch x := r.Val.(type) {
					case *ssa.MakeMap:
						if !useOK(x) {
							priv = false
						}
					case *ssa.Const:
						if !x.IsNil() {
							priv = false
						}
					default:
						priv = false
					}
				case *ssa.UnOp:
					if r.Op != token.MUL || !useOK(r) {
						priv = false
					}
				case *ssa.DebugRef:
				default:
					priv = false
				}
			}
			if priv {
				out = append(out, a)
			}
		}
	}
	c.privMaps[fn] = out
	return out
}

// resultCell: a local cell whose value is only ever loaded to be returned (the cell of a result in a function with defers).
func resultCell(addr ssa.Value) bool {
	a, ok := addr.(*ssa.Alloc)
	if !ok || a.Heap || a.Referrers() == nil {
		return false
	}
	for _, r := range *a.Referrers() {
		switch r := r.(type) {
		case *ssa.Store:
			if r.Val == ssa.Value(a) {
				return false
			}
		case *ssa.UnOp:
			if r.Referrers() == nil {
				return false
			}
			for _, q := range *r.Referrers() {
				switch q.(type) {
				case *ssa.Return, *ssa.DebugRef:
				default:
					return false
				}
			}
		case *ssa.DebugRef:
		default:
			return false
		}
	}
	return true
}
