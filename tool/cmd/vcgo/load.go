package main

import (
	"path/filepath"
	"regexp"
	"fmt"
	"go/types"
	"os"
	"sort"
	"strings"

	"golang.org/x/tools/go/packages"
	"golang.org/x/tools/go/ssa"
	"golang.org/x/tools/go/ssa/ssautil"
)

const modPath = "github.com/ozontech/seq-db"

// Program is the loaded repository: SSA for every seq-db package reachable from the
// requested patterns, export data only for third-party / std dependencies.
type Program struct {
	Prog  *ssa.Program
	Pkgs  map[string]*ssa.Package // by import path
	PPkgs map[string]*packages.Package
	Funcs map[string]*ssa.Function // canonical key -> function (see funcKey)
	Dir   string
	MutableGlobals map[*ssa.Global]bool // package-level variables assigned outside package initialisation
	ErrGlobals     map[*ssa.Global]bool // package-level variables initialised with errors.New / fmt.Errorf
	WrittenFields  map[string]bool      // "<type key>.<field>": some code (outside the initialisation of a fresh object) may write the field
	writtenNames   map[string]bool      // field names that appear in a write position somewhere in the repository's sources (syntactic)
}

func loadProgram(dir string, patterns []string) (*Program, error) {
	cfg := &packages.Config{
		Mode:       packages.LoadAllSyntax,
		Dir:        dir,
		BuildFlags: []string{"-tags=verif"},
		Env:        append(os.Environ(), "GOFLAGS=-mod=mod", "GOPROXY=off", "GOTOOLCHAIN=local"),
	}
	pkgs, err := packages.Load(cfg, patterns...)
	if err != nil {
		return nil, err
	}
	var errs []string
	packages.Visit(pkgs, nil, func(p *packages.Package) {
		if strings.HasPrefix(p.PkgPath, modPath) {
			for _, e := range p.Errors {
				errs = append(errs, e.Error())
			}
		}
	})
	if len(errs) > 0 {
		return nil, fmt.Errorf("load errors: %s", strings.Join(errs, "; "))
	}
	prog, _ := ssautil.AllPackages(pkgs, ssa.NaiveForm|ssa.GlobalDebug|ssa.InstantiateGenerics)
	prog.Build()
	P := &Program{Prog: prog, Pkgs: map[string]*ssa.Package{}, PPkgs: map[string]*packages.Package{}, Funcs: map[string]*ssa.Function{}, Dir: dir}
	packages.Visit(pkgs, nil, func(p *packages.Package) { P.PPkgs[p.PkgPath] = p })
	for _, sp := range prog.AllPackages() {
		P.Pkgs[sp.Pkg.Path()] = sp
	}
	for fn := range ssautil.AllFunctions(prog) {
		if fn.Pkg == nil && fn.Origin() == nil && fn.Parent() == nil {
			// synthetic functions have no package; keep the wrappers of promoted methods of repository types
			// (e.g. (*nodeNot).Next, promoted from the embedded nodeNAnd) - they are what an interface call runs
			if !(strings.HasPrefix(fn.Synthetic, "wrapper for") && fn.Object() != nil && fn.Object().Pkg() != nil && strings.HasPrefix(fn.Object().Pkg().Path(), modPath) && fn.Signature.Recv() != nil) {
				continue
			}
		}
		k := funcKey(fn)
		if k != "" {
			if _, dup := P.Funcs[k]; !dup || fn.Synthetic == "" {
				P.Funcs[k] = fn
			}
		}
	}
	// package-level error values created by errors.New / fmt.Errorf in the package initialiser are non-nil
	P.ErrGlobals = map[*ssa.Global]bool{}
	for fn := range ssautil.AllFunctions(prog) {
		if !(fn.Name() == "init" || strings.HasPrefix(fn.Name(), "init#") || fn.Synthetic == "package initializer") {
			continue
		}
		for _, b := range fn.Blocks {
			for _, ins := range b.Instrs {
				st, ok := ins.(*ssa.Store)
				if !ok {
					continue
				}
				g, ok := st.Addr.(*ssa.Global)
				if !ok {
					continue
				}
				if call, ok := st.Val.(*ssa.Call); ok {
					if f := call.Call.StaticCallee(); f != nil && f.Pkg != nil {
						n := f.Pkg.Pkg.Path() + "." + f.Name()
						if n == "errors.New" || n == "fmt.Errorf" {
							P.ErrGlobals[g] = true
						}
					}
				}
			}
		}
	}
	P.computeWrittenFields(prog)
	// A-INIT: a package-level variable that is only assigned during package initialisation is a constant
	P.MutableGlobals = map[*ssa.Global]bool{}
	for fn := range ssautil.AllFunctions(prog) {
		if fn.Name() == "init" || strings.HasPrefix(fn.Name(), "init#") || fn.Synthetic == "package initializer" {
			continue
		}
		for _, b := range fn.Blocks {
			for _, ins := range b.Instrs {
				if st, ok := ins.(*ssa.Store); ok {
					v := st.Addr
					for {
						switch a := v.(type) {
						case *ssa.FieldAddr:
							v = a.X
							continue
						case *ssa.IndexAddr:
							v = a.X
							continue
						}
						break
					}
					if g, ok := v.(*ssa.Global); ok {
						P.MutableGlobals[g] = true
					}
				}
			}
		}
	}
	return P, nil
}

// shortPkg maps an import path to the name used in contract files: the path relative to the module
// ("frac/processor"), or the full path for foreign packages ("sort").
func shortPkg(path string) string {
	if path == modPath {
		return "."
	}
	return strings.TrimPrefix(path, modPath+"/")
}

// funcKey: "<pkg>::Func", "<pkg>::(*T).M", "<pkg>::T.M", closures "<pkg>::Func$1".
// Instantiated generics: "<pkg>::Func[int]".
func funcKey(fn *ssa.Function) string {
	var pkg *types.Package
	if fn.Pkg != nil {
		pkg = fn.Pkg.Pkg
	} else if o := fn.Origin(); o != nil && o.Pkg != nil {
		pkg = o.Pkg.Pkg
	} else if p := fn.Parent(); p != nil {
		q := p
		for q.Parent() != nil {
			q = q.Parent()
		}
		if q.Pkg != nil {
			pkg = q.Pkg.Pkg
		} else if o := q.Origin(); o != nil && o.Pkg != nil {
			pkg = o.Pkg.Pkg
		}
	}
	if pkg == nil {
		if fn.Object() != nil && fn.Object().Pkg() != nil {
			pkg = fn.Object().Pkg()
		} else {
			return ""
		}
	}
	return shortPkg(pkg.Path()) + "::" + localFuncName(fn)
}

func localFuncName(fn *ssa.Function) string {
	if fn.Parent() != nil {
		// anonymous function: Parent$N
		return localFuncName(fn.Parent()) + strings.TrimPrefix(fn.Name(), fn.Parent().Name())
	}
	name := fn.Name()
	if recv := fn.Signature.Recv(); recv != nil {
		rt := recv.Type()
		ptr := false
		if p, ok := rt.(*types.Pointer); ok {
			ptr = true
			rt = p.Elem()
		}
		tn := typeBaseName(rt)
		if ptr {
			return "(*" + tn + ")." + name
		}
		return tn + "." + name
	}
	return name
}

func typeBaseName(t types.Type) string {
	switch t := t.(type) {
	case *types.Named:
		s := t.Obj().Name()
		if ta := t.TypeArgs(); ta != nil && ta.Len() > 0 {
			var a []string
			for i := 0; i < ta.Len(); i++ {
				a = append(a, types.TypeString(ta.At(i), func(p *types.Package) string { return p.Name() }))
			}
			s += "[" + strings.Join(a, ",") + "]"
		}
		return s
	case *types.Alias:
		return typeBaseName(types.Unalias(t))
	}
	return t.String()
}

func (P *Program) lookupFunc(pkg, name string) *ssa.Function {
	return P.Funcs[pkg+"::"+name]
}

func (P *Program) funcNamesLike(sub string) []string {
	var r []string
	for k := range P.Funcs {
		if strings.Contains(k, sub) {
			r = append(r, k)
		}
	}
	sort.Strings(r)
	return r
}

// computeWrittenFields finds the struct fields that are never written after the object that holds them has been set up
// (A-FINAL). A field counts as written if, in any function of the loaded program, a store goes through its address (unless
// the base is an object allocated in that same function: composite literals and constructors), its address is used for
// anything but loads and stores, or a whole struct of its type is stored through a pointer; and - for exported fields,
// which packages that are not loaded could write - if its NAME appears in a write position (x.f = , x.f++, &x.f) in any
// non-test source file of the repository.
func (P *Program) computeWrittenFields(prog *ssa.Program) {
	P.WrittenFields = map[string]bool{}
	var markAll func(t types.Type, depth int)
	markAll = func(t types.Type, depth int) {
		if depth > 4 {
			return
		}
		st, ok := types.Unalias(t).Underlying().(*types.Struct)
		if !ok {
			return
		}
		key := structKey(t)
		for i := 0; i < st.NumFields(); i++ {
			P.WrittenFields[key+"."+st.Field(i).Name()] = true
			markAll(st.Field(i).Type(), depth+1)
		}
	}
	freshBase := func(v ssa.Value) bool {
		for depth := 0; depth < 6; depth++ {
			switch x := v.(type) {
			case *ssa.Alloc:
				return true
			case *ssa.FieldAddr:
				v = x.X
			case *ssa.IndexAddr:
				v = x.X
			default:
				return false
			}
		}
		return false
	}
	for fn := range ssautil.AllFunctions(prog) {
		for _, b := range fn.Blocks {
			for _, ins := range b.Instrs {
				switch x := ins.(type) {
				case *ssa.FieldAddr:
					pt, ok := x.X.Type().Underlying().(*types.Pointer)
					if !ok {
						continue
					}
					st, ok := pt.Elem().Underlying().(*types.Struct)
					if !ok {
						continue
					}
					key := structKey(pt.Elem()) + "." + st.Field(x.Field).Name()
					if x.Referrers() == nil {
						continue
					}
					for _, r := range *x.Referrers() {
						switch r := r.(type) {
						case *ssa.Store:
							if r.Addr == ssa.Value(x) {
								if !freshBase(x.X) {
									P.WrittenFields[key] = true
								}
								// a struct value stored into the field rewrites the fields of that struct too
							} else {
								P.WrittenFields[key] = true // the address itself is stored somewhere
							}
						case *ssa.UnOp, *ssa.DebugRef:
						case *ssa.FieldAddr, *ssa.IndexAddr:
							// address of a part of the field's value (a struct or array held by value): the part may be
							// written through it
							P.WrittenFields[key] = true
						default:
							P.WrittenFields[key] = true
						}
					}
				case *ssa.Store:
					if pt, ok := x.Addr.Type().Underlying().(*types.Pointer); ok {
						if _, isStruct := pt.Elem().Underlying().(*types.Struct); isStruct && !freshBase(x.Addr) {
							markAll(pt.Elem(), 0)
						}
					}
				}
			}
		}
	}
}

func structKey(t types.Type) string {
	t = types.Unalias(t)
	if _, ok := t.(*types.Named); ok {
		return strings.ReplaceAll(typeKey(t), "|", "_")
	}
	return strings.ReplaceAll(typeKey(t.Underlying()), "|", "_")
}

var writePosRe = regexp.MustCompile(`\.([A-Z][A-Za-z0-9_]*)\s*(=[^=]|\+=|-=|\*=|/=|\|=|&=|\+\+|--)|&[A-Za-z_][A-Za-z0-9_.\[\]]*\.([A-Z][A-Za-z0-9_]*)\b`)

// exportedNameWritten: the field name appears in a write position in some non-test source file of the repository.
func (P *Program) exportedNameWritten(name string) bool {
	if P.writtenNames == nil {
		P.writtenNames = map[string]bool{}
		filepath.WalkDir(P.Dir, func(path string, d os.DirEntry, err error) error {
			if err != nil {
				return nil
			}
			if d.IsDir() {
				if n := d.Name(); n == ".git" || n == "vendor" || n == "node_modules" {
					return filepath.SkipDir
				}
				return nil
			}
			if !strings.HasSuffix(path, ".go") || strings.HasSuffix(path, "_test.go") {
				return nil
			}
			data, err := os.ReadFile(path)
			if err != nil {
				return nil
			}
			src := string(data)
			for _, loc := range writePosRe.FindAllStringSubmatchIndex(src, -1) {
				if loc[2] >= 0 {
					P.writtenNames[src[loc[2]:loc[3]]] = true
				}
				if loc[6] >= 0 {
					// &x.Name - unless it is the address of a composite literal of the type pkg.Name{...}
					rest := strings.TrimLeft(src[loc[1]:], " \t")
					if !strings.HasPrefix(rest, "{") {
						P.writtenNames[src[loc[6]:loc[7]]] = true
					}
				}
			}
			return nil
		})
	}
	return P.writtenNames[name]
}

// finalField: the field (component name F:<type>.<field>) is never written once its object exists.
func (P *Program) finalField(structT types.Type, field int) bool {
	st, ok := types.Unalias(structT).Underlying().(*types.Struct)
	if !ok {
		return false
	}
	f := st.Field(field)
	// only fields of repository types, holding scalars, pointers, slices, maps, strings, interfaces or functions
	if f.Pkg() == nil || !strings.HasPrefix(f.Pkg().Path(), modPath) {
		return false
	}
	switch f.Type().Underlying().(type) {
	case *types.Struct, *types.Array:
		return false
	}
	if P.WrittenFields[structKey(structT)+"."+f.Name()] {
		return false
	}
	if f.Exported() && P.exportedNameWritten(f.Name()) {
		return false
	}
	return true
}
