package main

import (
	"fmt"
	"go/types"
	"os"
	"sort"
	"strings"

	"golang.org/x/tools/go/packages"
	"golang.org/x/tools/go/ssa"
	"golang.org/x/tools/go/ssa/ssautil"
)

const modPath = "github.com/ozontech/seq-db"

// Program is the loaded repository: SSA for every seq-db package reachable from the
// requested patterns, export data only for third-party / std dependencies.
type Program struct {
	Prog  *ssa.Program
	Pkgs  map[string]*ssa.Package // by import path
	PPkgs map[string]*packages.Package
	Funcs map[string]*ssa.Function // canonical key -> function (see funcKey)
	Dir   string
	MutableGlobals map[*ssa.Global]bool // package-level variables assigned outside package initialisation
	ErrGlobals     map[*ssa.Global]bool // package-level variables initialised with errors.New / fmt.Errorf
}

func loadProgram(dir string, patterns []string) (*Program, error) {
	cfg := &packages.Config{
		Mode:       packages.LoadAllSyntax,
		Dir:        dir,
		BuildFlags: []string{"-tags=verif"},
		Env:        append(os.Environ(), "GOFLAGS=-mod=mod", "GOPROXY=off", "GOTOOLCHAIN=local"),
	}
	pkgs, err := packages.Load(cfg, patterns...)
	if err != nil {
		return nil, err
	}
	var errs []string
	packages.Visit(pkgs, nil, func(p *packages.Package) {
		if strings.HasPrefix(p.PkgPath, modPath) {
			for _, e := range p.Errors {
				errs = append(errs, e.Error())
			}
		}
	})
	if len(errs) > 0 {
		return nil, fmt.Errorf("load errors: %s", strings.Join(errs, "; "))
	}
	prog, _ := ssautil.AllPackages(pkgs, ssa.NaiveForm|ssa.GlobalDebug|ssa.InstantiateGenerics)
	prog.Build()
	P := &Program{Prog: prog, Pkgs: map[string]*ssa.Package{}, PPkgs: map[string]*packages.Package{}, Funcs: map[string]*ssa.Function{}, Dir: dir}
	packages.Visit(pkgs, nil, func(p *packages.Package) { P.PPkgs[p.PkgPath] = p })
	for _, sp := range prog.AllPackages() {
		P.Pkgs[sp.Pkg.Path()] = sp
	}
	for fn := range ssautil.AllFunctions(prog) {
		if fn.Pkg == nil && fn.Origin() == nil && fn.Parent() == nil {
			// synthetic functions have no package; keep the wrappers of promoted methods of repository types
			// (e.g. (*nodeNot).Next, promoted from the embedded nodeNAnd) - they are what an interface call runs
			if !(strings.HasPrefix(fn.Synthetic, "wrapper for") && fn.Object() != nil && fn.Object().Pkg() != nil && strings.HasPrefix(fn.Object().Pkg().Path(), modPath) && fn.Signature.Recv() != nil) {
				continue
			}
		}
		k := funcKey(fn)
		if k != "" {
			if _, dup := P.Funcs[k]; !dup || fn.Synthetic == "" {
				P.Funcs[k] = fn
			}
		}
	}
	// package-level error values created by errors.New / fmt.Errorf in the package initialiser are non-nil
	P.ErrGlobals = map[*ssa.Global]bool{}
	for fn := range ssautil.AllFunctions(prog) {
		if !(fn.Name() == "init" || strings.HasPrefix(fn.Name(), "init#") || fn.Synthetic == "package initializer") {
			continue
		}
		for _, b := range fn.Blocks {
			for _, ins := range b.Instrs {
				st, ok := ins.(*ssa.Store)
				if !ok {
					continue
				}
				g, ok := st.Addr.(*ssa.Global)
				if !ok {
					continue
				}
				if call, ok := st.Val.(*ssa.Call); ok {
					if f := call.Call.StaticCallee(); f != nil && f.Pkg != nil {
						n := f.Pkg.Pkg.Path() + "." + f.Name()
						if n == "errors.New" || n == "fmt.Errorf" {
							P.ErrGlobals[g] = true
						}
					}
				}
			}
		}
	}
	// A-INIT: a package-level variable that is only assigned during package initialisation is a constant
	P.MutableGlobals = map[*ssa.Global]bool{}
	for fn := range ssautil.AllFunctions(prog) {
		if fn.Name() == "init" || strings.HasPrefix(fn.Name(), "init#") || fn.Synthetic == "package initializer" {
			continue
		}
		for _, b := range fn.Blocks {
			for _, ins := range b.Instrs {
				if st, ok := ins.(*ssa.Store); ok {
					v := st.Addr
					for {
						switch a := v.(type) {
						case *ssa.FieldAddr:
							v = a.X
							continue
						case *ssa.IndexAddr:
							v = a.X
							continue
						}
						break
					}
					if g, ok := v.(*ssa.Global); ok {
						P.MutableGlobals[g] = true
					}
				}
			}
		}
	}
	return P, nil
}

// shortPkg maps an import path to the name used in contract files: the path relative to the module
// ("frac/processor"), or the full path for foreign packages ("sort").
func shortPkg(path string) string {
	if path == modPath {
		return "."
	}
	return strings.TrimPrefix(path, modPath+"/")
}

// funcKey: "<pkg>::Func", "<pkg>::(*T).M", "<pkg>::T.M", closures "<pkg>::Func$1".
// Instantiated generics: "<pkg>::Func[int]".
func funcKey(fn *ssa.Function) string {
	var pkg *types.Package
	if fn.Pkg != nil {
		pkg = fn.Pkg.Pkg
	} else if o := fn.Origin(); o != nil && o.Pkg != nil {
		pkg = o.Pkg.Pkg
	} else if p := fn.Parent(); p != nil {
		q := p
		for q.Parent() != nil {
			q = q.Parent()
		}
		if q.Pkg != nil {
			pkg = q.Pkg.Pkg
		} else if o := q.Origin(); o != nil && o.Pkg != nil {
			pkg = o.Pkg.Pkg
		}
	}
	if pkg == nil {
		if fn.Object() != nil && fn.Object().Pkg() != nil {
			pkg = fn.Object().Pkg()
		} else {
			return ""
		}
	}
	return shortPkg(pkg.Path()) + "::" + localFuncName(fn)
}

func localFuncName(fn *ssa.Function) string {
	if fn.Parent() != nil {
		// anonymous function: Parent$N
		return localFuncName(fn.Parent()) + strings.TrimPrefix(fn.Name(), fn.Parent().Name())
	}
	name := fn.Name()
	if recv := fn.Signature.Recv(); recv != nil {
		rt := recv.Type()
		ptr := false
		if p, ok := rt.(*types.Pointer); ok {
			ptr = true
			rt = p.Elem()
		}
		tn := typeBaseName(rt)
		if ptr {
			return "(*" + tn + ")." + name
		}
		return tn + "." + name
	}
	return name
}

func typeBaseName(t types.Type) string {
	switch t := t.(type) {
	case *types.Named:
		s := t.Obj().Name()
		if ta := t.TypeArgs(); ta != nil && ta.Len() > 0 {
			var a []string
			for i := 0; i < ta.Len(); i++ {
				a = append(a, types.TypeString(ta.At(i), func(p *types.Package) string { return p.Name() }))
			}
			s += "[" + strings.Join(a, ",") + "]"
		}
		return s
	case *types.Alias:
		return typeBaseName(types.Unalias(t))
	}
	return t.String()
}

func (P *Program) lookupFunc(pkg, name string) *ssa.Function {
	return P.Funcs[pkg+"::"+name]
}

func (P *Program) funcNamesLike(sub string) []string {
	var r []string
	for k := range P.Funcs {
		if strings.Contains(k, sub) {
			r = append(r, k)
		}
	}
	sort.Strings(r)
	return r
}
