package main

import (
	"fmt"
	"go/types"
	"strings"

	"golang.org/x/tools/go/ssa"
)

// ---------------------------------------------------------------------------
// Engine values
// ---------------------------------------------------------------------------

// Value is one of: Term (string), *Loc, *Closure, *Tuple, *FuncRef
type Value interface{}

type Term = string

type LocKind int

const (
	LocLocal  LocKind = iota // local cell (non-escaping or engine-managed)
	LocObj                   // heap struct object: Ref + first path element selects the component
	LocBox                   // heap box of a non-struct type
	LocElem                  // element Idx of backing store Ref (slice/array storage)
	LocArr                   // pointer to a whole array whose storage is backing store Ref
	LocGlobal                // package-level variable
)

type PathSel struct {
	IsIdx bool
	Field int
	Idx   Term
	Cont  types.Type // container type (struct or array)
}

type Cell struct {
	id   int
	ty   types.Type
	name string
}

type Loc struct {
	Kind LocKind
	Cell *Cell
	Ref  Term
	Idx  Term
	Ty   types.Type // type of the object the location refers to before applying Path (struct type for Obj, elem type for Elem/Box/Local/Global, array type for Arr)
	Path []PathSel
	Glob *ssa.Global
}

func (l *Loc) with(sel PathSel) *Loc {
	n := *l
	n.Path = append(append([]PathSel{}, l.Path...), sel)
	return &n
}

type Closure struct {
	Fn       *ssa.Function
	Bindings []Value
}

type Tuple struct{ Vals []Value }

type FuncRef struct{ Fn *ssa.Function }

type BuiltinRef struct{ Name string }

// ---------------------------------------------------------------------------
// State
// ---------------------------------------------------------------------------

type Heap map[string]string // component name -> current SMT term

type Frame struct {
	Fn      *ssa.Function
	Vals    map[ssa.Value]Value
	Prev    *ssa.BasicBlock
	Block   *ssa.BasicBlock
	PC      int
	Caller  *Frame
	CallIns ssa.Instruction // call instruction in caller awaiting the result
	Closure *Closure
	Defers  []*ssa.Defer
	DeferVals [][]Value
	Entered map[*ssa.BasicBlock]bool // loop heads already cut on this path
	Params  []Value
	CallCount map[string]int
	Spec    *FuncSpec
	Depth   int
	OnReturn func(s *State, vals []Value) ([]*State, bool) // continuation run instead of binding the result (engine-built calls)
	LoopFrames map[*ssa.BasicBlock]map[string]*loopFrame // user-declared loop frames to re-check at the back edge
	LoopWM     map[*ssa.BasicBlock]Term                  // allocation watermark when the loop was entered (sinceloop)
	LoopOld map[*ssa.BasicBlock]*Snapshot
	LoopVariant map[*ssa.BasicBlock]string
}

type loopFrame struct {
	start Term   // component value at the start of the (arbitrary) iteration
	refs  []Term // references the loop may write
	wm    Term   // watermark at loop entry
	sort  string
}

type Snapshot struct {
	Epoch int
	Heap  Heap
	Cells map[*Cell]Term
	Ghost map[string]TV
}

type State struct {
	C     *Ctx
	Path  *cmdList
	Heap  Heap
	Cells map[*Cell]Term
	CellLocs map[*Cell]*Loc // pointer-typed local cells currently holding an interior / engine-level pointer
	Frame *Frame
	Old   *Snapshot // state at entry of the function under verification
	Ghost map[string]TV
	WM    Term // allocation watermark: every reference reachable at entry is <= WM0; fresh ones are > current WM
	Abstracted []string
	PathID int
	HavocEpoch int
	nBranches int
	Trace []string
	calledClosure *Closure // the closure value being called against its contract (its captured variables are nameable)
	dynFnValue Term // the function value of the dynamic call being bound to a contract (`fn` in a funcspec)
	ghostExtra map[string]TV // extra names visible to ghost statements (results at a return anchor)
}

func (s *State) clone() *State {
	n := *s
	n.Heap = make(Heap, len(s.Heap))
	for k, v := range s.Heap {
		n.Heap[k] = v
	}
	n.Cells = make(map[*Cell]Term, len(s.Cells))
	for k, v := range s.Cells {
		n.Cells[k] = v
	}
	n.Ghost = make(map[string]TV, len(s.Ghost))
	for k, v := range s.Ghost {
		n.Ghost[k] = v
	}
	n.CellLocs = make(map[*Cell]*Loc, len(s.CellLocs))
	for k, v := range s.CellLocs {
		n.CellLocs[k] = v
	}
	n.Frame = s.Frame.cloneChain()
	n.Abstracted = append([]string{}, s.Abstracted...)
	n.Trace = append([]string{}, s.Trace...)
	return &n
}

func (f *Frame) cloneChain() *Frame {
	if f == nil {
		return nil
	}
	n := *f
	n.Vals = make(map[ssa.Value]Value, len(f.Vals))
	for k, v := range f.Vals {
		n.Vals[k] = v
	}
	n.Entered = make(map[*ssa.BasicBlock]bool, len(f.Entered))
	for k, v := range f.Entered {
		n.Entered[k] = v
	}
	n.CallCount = make(map[string]int, len(f.CallCount))
	for k, v := range f.CallCount {
		n.CallCount[k] = v
	}
	n.LoopOld = make(map[*ssa.BasicBlock]*Snapshot, len(f.LoopOld))
	for k, v := range f.LoopOld {
		n.LoopOld[k] = v
	}
	n.LoopWM = make(map[*ssa.BasicBlock]Term, len(f.LoopWM))
	for k, v := range f.LoopWM {
		n.LoopWM[k] = v
	}
	n.LoopFrames = make(map[*ssa.BasicBlock]map[string]*loopFrame, len(f.LoopFrames))
	for k, v := range f.LoopFrames {
		n.LoopFrames[k] = v
	}
	n.LoopVariant = make(map[*ssa.BasicBlock]string, len(f.LoopVariant))
	for k, v := range f.LoopVariant {
		n.LoopVariant[k] = v
	}
	n.Defers = append([]*ssa.Defer{}, f.Defers...)
	n.DeferVals = append([][]Value{}, f.DeferVals...)
	n.Caller = f.Caller.cloneChain()
	return &n
}

func (s *State) snapshot() *Snapshot {
	sn := &Snapshot{Epoch: s.HavocEpoch, Heap: make(Heap, len(s.Heap)), Cells: make(map[*Cell]Term, len(s.Cells)), Ghost: make(map[string]TV, len(s.Ghost))}
	for k, v := range s.Heap {
		sn.Heap[k] = v
	}
	sn.Heap["\x00epoch"] = fmt.Sprint(s.HavocEpoch)
	for k, v := range s.Cells {
		sn.Cells[k] = v
	}
	for k, v := range s.Ghost {
		sn.Ghost[k] = v
	}
	return sn
}

func (s *State) assert(t Term) {
	if t == "true" {
		return
	}
	s.Path = s.Path.push("(assert " + t + ")")
}

// name introduces a define-fun for a term if it is large, to keep terms shared.
func (s *State) name(prefix string, sort string, t Term) Term {
	if len(t) < 48 {
		return t
	}
	n := s.C.fresh(prefix)
	s.Path = s.Path.push(fmt.Sprintf("(define-fun %s () %s %s)", n, sort, t))
	s.C.defs[n] = t
	return n
}

// selectSimp builds (select arr idx), resolving reads over syntactically matching writes (and skipping writes
// to other freshly allocated references).
func (s *State) selectSimp(arr, idx Term) Term {
	cur := arr
	for depth := 0; depth < 64; depth++ {
		def := cur
		if d, ok := s.C.defs[cur]; ok {
			def = d
		}
		if !strings.HasPrefix(def, "(store ") {
			break
		}
		parts := parseSx(def)
		if len(parts) != 1 || len(parts[0].list) != 4 {
			break
		}
		a, i, v := parts[0].list[1].String(), parts[0].list[2].String(), parts[0].list[3].String()
		if i == idx {
			return v
		}
		if isFreshRef(i) && isFreshRef(idx) {
			cur = a
			continue
		}
		break
	}
	return fmt.Sprintf("(select %s %s)", cur, idx)
}

func isFreshRef(t Term) bool {
	for _, p := range []string{"new_", "alloc_", "mk!", "map!", "ap_base!", "bytes!", "chan!"} {
		if strings.HasPrefix(t, p) {
			return true
		}
	}
	return false
}

func (s *State) freshConst(prefix, sort string) Term {
	n := s.C.fresh(prefix)
	s.C.declare(n, sort)
	return n
}

// freshOf creates an unconstrained value of a Go type with its well-formedness facts assumed.
func (s *State) freshOf(prefix string, t types.Type) Term {
	n := s.freshConst(prefix, s.C.sortOf(t))
	for _, f := range s.C.wf(n, t, 0) {
		s.assert(f)
	}
	s.assumeAllocated(n, t)
	return n
}

// assumeAllocated: references held in a value obtained from the pre-existing heap are not fresh.
func (s *State) assumeAllocated(term Term, t types.Type) {
	switch u := s.C.under(t).(type) {
	case *types.Pointer, *types.Map, *types.Chan:
		s.assert(fmt.Sprintf("(<= %s %s)", term, s.WM))
	case *types.Slice:
		s.assert(fmt.Sprintf("(<= (s.base %s) %s)", term, s.WM))
	case *types.Interface:
		s.assert(fmt.Sprintf("(<= (i.val %s) %s)", term, s.WM))
	case *types.Struct:
		name := s.C.structSort(t, u)
		for i := 0; i < u.NumFields(); i++ {
			ft := u.Field(i).Type()
			switch s.C.under(ft).(type) {
			case *types.Pointer, *types.Map, *types.Chan, *types.Slice, *types.Interface:
				s.assumeAllocated(fmt.Sprintf("(%s %s)", s.C.fieldSel(name, u.Field(i).Name(), i), term), ft)
			}
		}
	}
}

// newRef allocates a fresh reference above the watermark.
func (s *State) newRef(prefix string) Term {
	r := s.freshConst(prefix, "Int")
	s.assert(fmt.Sprintf("(> %s %s)", r, s.WM))
	s.WM = r
	return r
}

// ---------------------------------------------------------------------------
// Heap components
// ---------------------------------------------------------------------------

func (s *State) comp(name, sort string) Term {
	if t, ok := s.Heap[name]; ok {
		return t
	}
	// first use: the initial (entry) value of this component. All snapshots must agree, so the
	// constant's name is derived from the component name.
	c0 := fmt.Sprintf("|%s@%d|", name, s.HavocEpoch)
	if s.C.constGlobals[name] {
		c0 = fmt.Sprintf("|%s@0|", name) // A-INIT: never assigned after package initialisation
	}
	s.C.declare(c0, sort)
	s.C.compSorts[name] = sort
	s.Heap[name] = c0
	return c0
}

func compIn(c *Ctx, h Heap, name, sort string) Term {
	if t, ok := h[name]; ok {
		return t
	}
	ep := 0
	if e, ok := h["\x00epoch"]; ok {
		fmt.Sscanf(e, "%d", &ep)
	}
	c0 := fmt.Sprintf("|%s@%d|", name, ep)
	if c.constGlobals[name] || c.finalComps[name] {
		// (a final field first read after a havoc still denotes what it held at entry)
		c0 = fmt.Sprintf("|%s@0|", name)
	}
	c.declare(c0, sort)
	c.compSorts[name] = sort
	return c0
}

func (s *State) setComp(name, sort string, t Term) {
	s.Heap[name] = s.name("H", sort, t)
}

func (c *Ctx) fieldComp(structT types.Type, field int) (name, sort string, ft types.Type) {
	st := c.structOf(structT)
	f := st.Field(field)
	key := typeKey(types.Unalias(structT))
	if _, ok := types.Unalias(structT).(*types.Named); !ok {
		key = typeKey(st)
	}
	name = "F:" + strings.ReplaceAll(key, "|", "_") + "." + f.Name()
	if c.finalComps == nil {
		c.finalComps = map[string]bool{}
	}
	if _, seen := c.finalComps[name]; !seen {
		c.finalComps[name] = c.P.finalField(structT, field)
	}
	return name, "(Array Int " + c.sortOf(f.Type()) + ")", f.Type()
}

func (c *Ctx) boxComp(t types.Type) (name, sort string) {
	return "B:" + strings.ReplaceAll(typeKey(t), "|", "_"), "(Array Int " + c.sortOf(t) + ")"
}

func (c *Ctx) elemComp(t types.Type) (name, sort string) {
	return "E:" + strings.ReplaceAll(typeKey(t), "|", "_"), "(Array Int (Array Int " + c.sortOf(t) + "))"
}

func (c *Ctx) mapComps(m *types.Map) (dom, val, ln string, domSort, valSort, lnSort string) {
	k := strings.ReplaceAll(typeKey(m.Key())+"=>"+typeKey(m.Elem()), "|", "_")
	ks, vs := c.sortOf(m.Key()), c.sortOf(m.Elem())
	return "MD:" + k, "MV:" + k, "ML:" + k, "(Array Int (Array " + ks + " Bool))", "(Array Int (Array " + ks + " " + vs + "))", "(Array Int Int)"
}

func (c *Ctx) globalComp(g *ssa.Global) (name, sort string, t types.Type) {
	t = g.Type().(*types.Pointer).Elem()
	name = "G:" + shortPkg(g.Pkg.Pkg.Path()) + "." + g.Name()
	if !c.P.MutableGlobals[g] {
		c.constGlobals[name] = true
		c.assume("A-INIT: package-level variable " + name[2:] + " is never assigned after initialisation")
	}
	return name, c.sortOf(t), t
}

// ---------------------------------------------------------------------------
// Load / store through locations
// ---------------------------------------------------------------------------

// pathType returns the type reached after applying the path.
func (c *Ctx) pathType(t types.Type, path []PathSel) types.Type {
	for _, p := range path {
		if p.IsIdx {
			t = c.under(t).(*types.Array).Elem()
		} else {
			t = c.structOf(t).Field(p.Field).Type()
		}
	}
	return t
}

func (s *State) selPath(base Term, t types.Type, path []PathSel) Term {
	c := s.C
	for _, p := range path {
		if p.IsIdx {
			base = fmt.Sprintf("(select %s %s)", base, p.Idx)
			t = c.under(t).(*types.Array).Elem()
		} else {
			st := c.structOf(t)
			name := c.structSort(t, st)
			base = fmt.Sprintf("(%s %s)", c.fieldSel(name, st.Field(p.Field).Name(), p.Field), base)
			t = st.Field(p.Field).Type()
		}
	}
	return base
}

// updPath returns base with the sub-value at path replaced by v.
func (s *State) updPath(base Term, t types.Type, path []PathSel, v Term) Term {
	if len(path) == 0 {
		return v
	}
	c := s.C
	p := path[0]
	if p.IsIdx {
		et := c.under(t).(*types.Array).Elem()
		inner := s.updPath(fmt.Sprintf("(select %s %s)", base, p.Idx), et, path[1:], v)
		return fmt.Sprintf("(store %s %s %s)", base, p.Idx, inner)
	}
	st := c.structOf(t)
	name := c.structSort(t, st)
	if len(base) > 40 {
		base = s.name("sv", name, base)
	}
	var fs []string
	for i := 0; i < st.NumFields(); i++ {
		cur := fmt.Sprintf("(%s %s)", c.fieldSel(name, st.Field(i).Name(), i), base)
		if i == p.Field {
			cur = s.updPath(cur, st.Field(i).Type(), path[1:], v)
		}
		fs = append(fs, cur)
	}
	return fmt.Sprintf("(mk.%s %s)", name, strings.Join(fs, " "))
}

func (s *State) loadIn(h Heap, cells map[*Cell]Term, l *Loc) (Term, types.Type) {
	c := s.C
	switch l.Kind {
	case LocLocal:
		v, ok := cells[l.Cell]
		if !ok {
			v = c.zero(l.Cell.ty)
		}
		return s.selPath(v, l.Ty, l.Path), c.pathType(l.Ty, l.Path)
	case LocObj:
		if len(l.Path) == 0 {
			// whole struct value
			st := c.structOf(l.Ty)
			name := c.structSort(l.Ty, st)
			if st.NumFields() == 0 {
				return "(mk." + name + " 0)", l.Ty
			}
			var fs []string
			for i := 0; i < st.NumFields(); i++ {
				cn, cs, _ := c.fieldComp(l.Ty, i)
				fs = append(fs, fmt.Sprintf("(select %s %s)", compIn(c, h, cn, cs), l.Ref))
			}
			return fmt.Sprintf("(mk.%s %s)", name, strings.Join(fs, " ")), l.Ty
		}
		cn, cs, ft := c.fieldComp(l.Ty, l.Path[0].Field)
		base := s.selectSimp(compIn(c, h, cn, cs), l.Ref)
		return s.selPath(base, ft, l.Path[1:]), c.pathType(ft, l.Path[1:])
	case LocBox:
		cn, cs := c.boxComp(l.Ty)
		base := s.selectSimp(compIn(c, h, cn, cs), l.Ref)
		return s.selPath(base, l.Ty, l.Path), c.pathType(l.Ty, l.Path)
	case LocElem:
		cn, cs := c.elemComp(l.Ty)
		base := fmt.Sprintf("(select (select %s %s) %s)", compIn(c, h, cn, cs), l.Ref, l.Idx)
		return s.selPath(base, l.Ty, l.Path), c.pathType(l.Ty, l.Path)
	case LocArr:
		at := c.under(l.Ty).(*types.Array)
		cn, cs := c.elemComp(at.Elem())
		base := fmt.Sprintf("(select %s %s)", compIn(c, h, cn, cs), l.Ref)
		return s.selPath(base, l.Ty, l.Path), c.pathType(l.Ty, l.Path)
	case LocGlobal:
		cn, cs, t := c.globalComp(l.Glob)
		return s.selPath(compIn(c, h, cn, cs), t, l.Path), c.pathType(t, l.Path)
	}
	panic("bad loc")
}

func (s *State) load(l *Loc) (Term, types.Type) {
	// make sure components exist in the current heap (registers @0 in Old too)
	s.touch(l)
	t, ty := s.loadIn(s.Heap, s.Cells, l)
	if l.Kind == LocGlobal && len(l.Path) == 0 && s.C.P.ErrGlobals[l.Glob] && !s.C.P.MutableGlobals[l.Glob] {
		// A-INIT: an error value made by errors.New / fmt.Errorf at package initialisation and never reassigned
		s.assert(fmt.Sprintf("(not (= (i.tag %s) 0))", t))
	}
	return t, ty
}

func (s *State) touch(l *Loc) {
	c := s.C
	switch l.Kind {
	case LocObj:
		if len(l.Path) == 0 {
			st := c.structOf(l.Ty)
			for i := 0; i < st.NumFields(); i++ {
				cn, cs, _ := c.fieldComp(l.Ty, i)
				s.comp(cn, cs)
			}
		} else {
			cn, cs, _ := c.fieldComp(l.Ty, l.Path[0].Field)
			s.comp(cn, cs)
		}
	case LocBox:
		cn, cs := c.boxComp(l.Ty)
		s.comp(cn, cs)
	case LocElem:
		cn, cs := c.elemComp(l.Ty)
		s.comp(cn, cs)
	case LocArr:
		cn, cs := c.elemComp(c.under(l.Ty).(*types.Array).Elem())
		s.comp(cn, cs)
	case LocGlobal:
		cn, cs, _ := c.globalComp(l.Glob)
		s.comp(cn, cs)
	}
}

func (s *State) store(l *Loc, v Term) {
	c := s.C
	s.touch(l)
	switch l.Kind {
	case LocLocal:
		cur, ok := s.Cells[l.Cell]
		if !ok {
			cur = c.zero(l.Cell.ty)
		}
		nv := s.updPath(cur, l.Ty, l.Path, v)
		s.Cells[l.Cell] = s.name("c_"+l.Cell.name, c.sortOf(l.Cell.ty), nv)
	case LocObj:
		if len(l.Path) == 0 {
			st := c.structOf(l.Ty)
			name := c.structSort(l.Ty, st)
			v = s.name("sv", name, v)
			for i := 0; i < st.NumFields(); i++ {
				cn, cs, _ := c.fieldComp(l.Ty, i)
				s.setComp(cn, cs, fmt.Sprintf("(store %s %s (%s %s))", s.comp(cn, cs), l.Ref, c.fieldSel(name, st.Field(i).Name(), i), v))
			}
			return
		}
		cn, cs, ft := c.fieldComp(l.Ty, l.Path[0].Field)
		cur := fmt.Sprintf("(select %s %s)", s.comp(cn, cs), l.Ref)
		nv := s.updPath(cur, ft, l.Path[1:], v)
		s.setComp(cn, cs, fmt.Sprintf("(store %s %s %s)", s.comp(cn, cs), l.Ref, nv))
	case LocBox:
		cn, cs := c.boxComp(l.Ty)
		cur := fmt.Sprintf("(select %s %s)", s.comp(cn, cs), l.Ref)
		nv := s.updPath(cur, l.Ty, l.Path, v)
		s.setComp(cn, cs, fmt.Sprintf("(store %s %s %s)", s.comp(cn, cs), l.Ref, nv))
	case LocElem:
		cn, cs := c.elemComp(l.Ty)
		E := s.comp(cn, cs)
		cur := fmt.Sprintf("(select (select %s %s) %s)", E, l.Ref, l.Idx)
		nv := s.updPath(cur, l.Ty, l.Path, v)
		s.setComp(cn, cs, fmt.Sprintf("(store %s %s (store (select %s %s) %s %s))", E, l.Ref, E, l.Ref, l.Idx, nv))
	case LocArr:
		at := c.under(l.Ty).(*types.Array)
		cn, cs := c.elemComp(at.Elem())
		E := s.comp(cn, cs)
		cur := fmt.Sprintf("(select %s %s)", E, l.Ref)
		nv := s.updPath(cur, l.Ty, l.Path, v)
		s.setComp(cn, cs, fmt.Sprintf("(store %s %s %s)", E, l.Ref, nv))
	case LocGlobal:
		cn, cs, t := c.globalComp(l.Glob)
		nv := s.updPath(s.comp(cn, cs), t, l.Path, v)
		s.setComp(cn, cs, nv)
	}
}
