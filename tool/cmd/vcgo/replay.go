package main

import (
	"encoding/json"
	"fmt"
	"os"
	"path/filepath"
	"strings"
)

type ReplayResult struct {
	Path       string
	Reproduced bool
	Verdict    string
}

// replayObligation writes /verif/replays/<prop>/<obligation>/replay.json for a failed obligation and, where the
// solver gives a (candidate) model whose inputs can be rebuilt as Go values, runs the real function on them.
func replayObligation(vd, prop string, s *OblSummary, secs int) ReplayResult {
	dir := filepath.Join(vd, "replays", prop, sanitize(strings.ReplaceAll(s.Name, "/", "__")))
	os.RemoveAll(dir)
	os.MkdirAll(dir, 0o755)
	path := filepath.Join(dir, "replay.json")
	rec := map[string]interface{}{
		"property":   prop,
		"obligation": s.Name,
		"function":   s.Func,
		"kind":       s.Kind,
		"clause":     s.Clause,
		"pos":        s.Pos,
	}
	var qs []map[string]interface{}
	res := ReplayResult{Path: path, Verdict: "no model"}
	for i, o := range s.failed {
		q := map[string]interface{}{"path_id": o.PathID, "result": o.Result, "solver": o.Solver, "solver_output": o.Output, "ms": o.Ms}
		if i < 3 {
			qf := filepath.Join(dir, fmt.Sprintf("query_%d.smt2", i))
			os.WriteFile(qf, []byte(s.ctx.queryText(o, false)), 0o644)
			q["query_file"] = qf
			if s.ctx.Fn != nil {
				r := tryReplay(s.ctx, o, dir, i, secs)
				q["replay"] = r
				if rep, _ := r["reproduced"].(bool); rep {
					res.Reproduced = true
					res.Verdict = fmt.Sprint(r["verdict"])
				} else if res.Verdict == "no model" && r["verdict"] != nil {
					res.Verdict = fmt.Sprint(r["verdict"])
				}
			}
		}
		qs = append(qs, q)
	}
	rec["queries"] = qs
	rec["reproduced"] = res.Reproduced
	rec["verdict"] = res.Verdict
	out, _ := json.MarshalIndent(rec, "", " ")
	os.WriteFile(path, out, 0o644)
	return res
}

func tryReplay(c *Ctx, o *Obligation, dir string, i int, secs int) map[string]interface{} {
	return map[string]interface{}{"verdict": "replay not attempted", "reproduced": false}
}
