package main

import (
	"time"
	"sync"
	"encoding/json"
	"fmt"
	"go/types"
	"math/big"
	"os"
	"os/exec"
	"path/filepath"
	"regexp"
	"sort"
	"strings"

	"golang.org/x/tools/go/ssa"
)

type ReplayResult struct {
	Path       string
	Reproduced bool
	Verdict    string
}

// The search for failing inputs is bounded per check run: the first failed obligations get the full treatment (candidate
// models, replay on the real code, bounded witness search); once 12 obligations or 12 minutes have been spent, further
// failed obligations are still reported, with their queries and the solver's output, but without an input search.
var replayCount int
var replayStart time.Time

func replayBudgetLeft() bool {
	if replayStart.IsZero() {
		replayStart = time.Now()
	}
	replayCount++
	return replayCount <= 12 && time.Since(replayStart) < 12*time.Minute
}

// replayObligation writes /verif/replays/<prop>/<obligation>/replay.json for a failed obligation and, where the
// solver gives a (candidate) model whose inputs can be rebuilt as Go values, runs the real function on them.
func replayObligation(vd, prop string, s *OblSummary, secs int) ReplayResult {
	dir := filepath.Join(outDir(), "replays", prop, sanitize(strings.ReplaceAll(s.Name, "/", "__")))
	os.RemoveAll(dir)
	os.MkdirAll(dir, 0o755)
	path := filepath.Join(dir, "replay.json")
	rec := map[string]interface{}{
		"property":   prop,
		"obligation": s.Name,
		"function":   s.Func,
		"kind":       s.Kind,
		"clause":     s.Clause,
		"pos":        s.Pos,
	}
	var qs []map[string]interface{}
	res := ReplayResult{Path: path, Verdict: "no model"}
	for i, o := range s.failed {
		q := map[string]interface{}{"path_id": o.PathID, "result": o.Result, "solver": o.Solver, "solver_output": o.Output, "ms": o.Ms}
		if i < 3 {
			qf := filepath.Join(dir, fmt.Sprintf("query_%d.smt2", i))
			os.WriteFile(qf, []byte(s.ctx.queryText(o, false)), 0o644)
			q["query_file"] = qf
			if s.ctx.Fn != nil && !res.Reproduced && replayBudgetLeft() {
				r := tryReplay(s.ctx, o, dir, i, secs)
				q["replay"] = r
				if rep, _ := r["reproduced"].(bool); rep {
					res.Reproduced = true
					res.Verdict = fmt.Sprint(r["verdict"])
				} else if r["verdict"] != nil && (res.Verdict == "no model" || i == 0) {
					res.Verdict = fmt.Sprint(r["verdict"])
				}
			}
		}
		qs = append(qs, q)
	}
	rec["queries"] = qs
	rec["reproduced"] = res.Reproduced
	rec["verdict"] = res.Verdict
	out, _ := json.MarshalIndent(rec, "", " ")
	os.WriteFile(path, out, 0o644)
	return res
}

// ---------------------------------------------------------------------------
// Shapes: how a Go value is described by SMT terms (inputs) / by dumped JSON (outputs)
// ---------------------------------------------------------------------------

type Shape struct {
	Kind    string // int bool float string slice ptr struct time unsupported
	Ty      types.Type
	Term    string // scalar term (int/bool/float), or the value term for composites
	LenTerm string
	NilTerm string
	Fields  []*Shape
	Names   []string
	Elems   []*Shape
	Pointee *Shape
	Chars   []string
	// filled from the model
	Val   string
	Len   int
	IsNil bool
	Note  string
}

const replayMaxElems = 8

type shapeBuilder struct {
	c     *Ctx
	heap  func(name, sort string) string // heap component term in the state the shape describes
	terms []string
}

func (b *shapeBuilder) ask(t string) string {
	b.terms = append(b.terms, t)
	return t
}

func (b *shapeBuilder) build(term string, t types.Type, depth int) *Shape {
	c := b.c
	sh := &Shape{Ty: t, Term: term}
	if depth > 4 {
		sh.Kind = "unsupported"
		sh.Note = "too deep"
		return sh
	}
	if n, ok := types.Unalias(t).(*types.Named); ok && n.Obj().Pkg() != nil && n.Obj().Pkg().Path() == "time" && n.Obj().Name() == "Time" {
		sh.Kind = "time"
		if _, ok := c.structNames["time.Time"]; ok {
			sh.Term = b.ask(fmt.Sprintf("(time.ns %s)", term))
		} else {
			sh.Kind = "unsupported"
		}
		return sh
	}
	switch u := c.under(t).(type) {
	case *types.Basic:
		switch {
		case u.Info()&types.IsBoolean != 0:
			sh.Kind = "bool"
			b.ask(term)
		case u.Info()&types.IsInteger != 0:
			sh.Kind = "int"
			b.ask(term)
		case u.Info()&types.IsFloat != 0:
			sh.Kind = "float"
			b.ask(term)
		case u.Info()&types.IsString != 0:
			sh.Kind = "string"
			sh.LenTerm = b.ask(fmt.Sprintf("(gs.len %s)", term))
			for k := 0; k < 2*replayMaxElems; k++ {
				sh.Chars = append(sh.Chars, b.ask(fmt.Sprintf("(gs.at %s %d)", term, k)))
			}
		default:
			sh.Kind = "unsupported"
		}
	case *types.Slice:
		sh.Kind = "slice"
		sh.LenTerm = b.ask(fmt.Sprintf("(s.len %s)", term))
		sh.NilTerm = b.ask(fmt.Sprintf("(= (s.base %s) 0)", term))
		cn, cs := c.elemComp(u.Elem())
		for k := 0; k < replayMaxElems; k++ {
			et := fmt.Sprintf("(select (select %s (s.base %s)) (idx (s.off %s) %d))", b.heap(cn, cs), term, term, k)
			sh.Elems = append(sh.Elems, b.build(et, u.Elem(), depth+1))
		}
	case *types.Pointer:
		sh.Kind = "ptr"
		sh.NilTerm = b.ask(fmt.Sprintf("(= %s 0)", term))
		if st := c.structOf(u.Elem()); st != nil {
			p := &Shape{Kind: "struct", Ty: u.Elem()}
			for i := 0; i < st.NumFields(); i++ {
				cn, cs, ft := c.fieldComp(u.Elem(), i)
				p.Names = append(p.Names, st.Field(i).Name())
				p.Fields = append(p.Fields, b.build(fmt.Sprintf("(select %s %s)", b.heap(cn, cs), term), ft, depth+1))
			}
			sh.Pointee = p
		} else if _, isArr := c.under(u.Elem()).(*types.Array); isArr {
			sh.Kind = "unsupported"
		} else {
			cn, cs := c.boxComp(u.Elem())
			sh.Pointee = b.build(fmt.Sprintf("(select %s %s)", b.heap(cn, cs), term), u.Elem(), depth+1)
		}
	case *types.Struct:
		sh.Kind = "struct"
		name := c.structSort(t, u)
		for i := 0; i < u.NumFields(); i++ {
			sh.Names = append(sh.Names, u.Field(i).Name())
			sh.Fields = append(sh.Fields, b.build(fmt.Sprintf("(%s %s)", c.fieldSel(name, u.Field(i).Name(), i), term), u.Field(i).Type(), depth+1))
		}
	default:
		sh.Kind = "unsupported"
		sh.Note = fmt.Sprintf("%T", u)
	}
	return sh
}

// fill reads the model values into the shape.
func (sh *Shape) fill(vals map[string]string) {
	get := func(t string) string { return vals[normTerm(t)] }
	switch sh.Kind {
	case "int", "bool", "float", "time":
		sh.Val = get(sh.Term)
	case "string":
		sh.Len = atoiSafe(get(sh.LenTerm))
		var bs []byte
		for k := 0; k < sh.Len && k < len(sh.Chars); k++ {
			bs = append(bs, byte(atoiSafe(get(sh.Chars[k]))&255))
		}
		sh.Val = string(bs)
	case "slice":
		sh.Len = atoiSafe(get(sh.LenTerm))
		sh.IsNil = get(sh.NilTerm) == "true"
		for _, e := range sh.Elems {
			e.fill(vals)
		}
	case "ptr":
		sh.IsNil = get(sh.NilTerm) == "true"
		if sh.Pointee != nil {
			sh.Pointee.fill(vals)
		}
	case "struct":
		for _, f := range sh.Fields {
			f.fill(vals)
		}
	}
}

func atoiSafe(s string) int {
	b := smtIntValue(s)
	if b == nil || !b.IsInt64() {
		return 0
	}
	return int(b.Int64())
}

func smtIntValue(s string) *big.Int {
	s = strings.TrimSpace(s)
	neg := false
	if strings.HasPrefix(s, "(-") {
		neg = true
		s = strings.TrimSpace(strings.TrimSuffix(strings.TrimPrefix(s, "(-"), ")"))
	}
	s = strings.TrimSuffix(s, ".0")
	b, ok := new(big.Int).SetString(s, 10)
	if !ok {
		return nil
	}
	if neg {
		b.Neg(b)
	}
	return b
}

var wsRe = regexp.MustCompile(`\s+`)

func normTerm(t string) string { return wsRe.ReplaceAllString(strings.TrimSpace(t), " ") }

// goLit renders the shape as a Go expression. qual qualifies type names for the test's package.
func (sh *Shape) goLit(qual types.Qualifier, notes *[]string) string {
	ts := types.TypeString(sh.Ty, qual)
	switch sh.Kind {
	case "int":
		b := smtIntValue(sh.Val)
		if b == nil {
			b = big.NewInt(0)
		}
		return fmt.Sprintf("%s(%s)", ts, b.String())
	case "bool":
		if sh.Val == "true" {
			return ts + "(true)"
		}
		return ts + "(false)"
	case "float":
		return fmt.Sprintf("%s(%s)", ts, smtRealToGo(sh.Val))
	case "time":
		b := smtIntValue(sh.Val)
		if b == nil {
			b = big.NewInt(0)
		}
		sec := new(big.Int)
		ns := new(big.Int)
		sec.DivMod(b, big.NewInt(1000000000), ns)
		return fmt.Sprintf("time.Unix(%s, %s).UTC()", sec.String(), ns.String())
	case "string":
		return fmt.Sprintf("%s(%q)", ts, sh.Val)
	case "slice":
		if sh.IsNil {
			return ts + "(nil)"
		}
		n := sh.Len
		if n > len(sh.Elems) {
			*notes = append(*notes, fmt.Sprintf("slice of length %d truncated to %d elements", n, len(sh.Elems)))
			n = len(sh.Elems)
		}
		var es []string
		for k := 0; k < n; k++ {
			es = append(es, sh.Elems[k].goLit(qual, notes))
		}
		return ts + "{" + strings.Join(es, ", ") + "}"
	case "ptr":
		if sh.IsNil || sh.Pointee == nil {
			return "(" + ts + ")(nil)"
		}
		if sh.Pointee.Kind == "struct" {
			return "&" + sh.Pointee.goLit(qual, notes)
		}
		return fmt.Sprintf("func() %s { v := %s; return &v }()", ts, sh.Pointee.goLit(qual, notes))
	case "struct":
		var fs []string
		for i, f := range sh.Fields {
			if sh.Names[i] == "_" {
				continue
			}
			if f.Kind == "unsupported" {
				*notes = append(*notes, "field "+sh.Names[i]+" left at its zero value ("+f.Note+")")
				continue
			}
			if n, ok := types.Unalias(sh.Ty).(*types.Named); ok && n.Obj().Pkg() != nil && !st_exported(sh.Names[i]) && qual(n.Obj().Pkg()) != "" {
				*notes = append(*notes, "unexported field "+sh.Names[i]+" of foreign type left at zero")
				continue
			}
			fs = append(fs, sh.Names[i]+": "+f.goLit(qual, notes))
		}
		return types.TypeString(sh.Ty, qual) + "{" + strings.Join(fs, ", ") + "}"
	}
	*notes = append(*notes, "unsupported input of type "+ts+" replaced by its zero value")
	return fmt.Sprintf("*new(%s)", ts)
}

// toJSON describes the value for the reflective builder in the replay test.
func (sh *Shape) toJSON(notes *[]string) interface{} {
	switch sh.Kind {
	case "int":
		b := smtIntValue(sh.Val)
		if b == nil {
			b = big.NewInt(0)
		}
		return map[string]interface{}{"int": b.String()}
	case "bool":
		return map[string]interface{}{"bool": sh.Val == "true"}
	case "float":
		return map[string]interface{}{"float": smtRealToFloat(sh.Val)}
	case "time":
		b := smtIntValue(sh.Val)
		if b == nil {
			b = big.NewInt(0)
		}
		return map[string]interface{}{"time_ns": b.String()}
	case "string":
		return map[string]interface{}{"str": []byte(sh.Val)}
	case "slice":
		if sh.IsNil {
			return map[string]interface{}{"nil": true}
		}
		n := sh.Len
		if n > len(sh.Elems) {
			*notes = append(*notes, fmt.Sprintf("slice of length %d truncated to %d elements", n, len(sh.Elems)))
			n = len(sh.Elems)
		}
		es := []interface{}{}
		for k := 0; k < n; k++ {
			es = append(es, sh.Elems[k].toJSON(notes))
		}
		return map[string]interface{}{"slice": es}
	case "ptr":
		if sh.IsNil || sh.Pointee == nil {
			return map[string]interface{}{"nil": true}
		}
		return map[string]interface{}{"ptr": sh.Pointee.toJSON(notes)}
	case "struct":
		m := map[string]interface{}{}
		for i, f := range sh.Fields {
			if sh.Names[i] == "_" {
				continue
			}
			if f.Kind == "unsupported" {
				*notes = append(*notes, "field "+sh.Names[i]+" left at its zero value ("+f.Note+")")
				continue
			}
			m[sh.Names[i]] = f.toJSON(notes)
		}
		return map[string]interface{}{"struct": m}
	}
	*notes = append(*notes, "unsupported input of type "+sh.Ty.String()+" replaced by its zero value")
	return nil
}

func smtRealToFloat(v string) float64 {
	v = strings.TrimSpace(v)
	neg := false
	if strings.HasPrefix(v, "(-") {
		neg = true
		v = strings.TrimSpace(strings.TrimSuffix(strings.TrimPrefix(v, "(-"), ")"))
	}
	var f float64
	if strings.HasPrefix(v, "(/") {
		fs := strings.Fields(strings.TrimSuffix(strings.TrimPrefix(v, "(/"), ")"))
		if len(fs) == 2 {
			var a, b float64
			fmt.Sscanf(fs[0], "%g", &a)
			fmt.Sscanf(fs[1], "%g", &b)
			if b != 0 {
				f = a / b
			}
		}
	} else {
		fmt.Sscanf(v, "%g", &f)
	}
	if neg {
		f = -f
	}
	return f
}

func st_exported(n string) bool { return n != "" && n[0] >= 'A' && n[0] <= 'Z' }

func smtRealToGo(v string) string {
	v = strings.TrimSpace(v)
	if v == "" {
		return "0"
	}
	neg := ""
	if strings.HasPrefix(v, "(-") {
		neg = "-"
		v = strings.TrimSpace(strings.TrimSuffix(strings.TrimPrefix(v, "(-"), ")"))
	}
	if strings.HasPrefix(v, "(/") {
		f := strings.Fields(strings.TrimSuffix(strings.TrimPrefix(v, "(/"), ")"))
		if len(f) == 2 {
			return fmt.Sprintf("%s(%s / %s)", neg, f[0], f[1])
		}
	}
	return neg + v
}

// ---------------------------------------------------------------------------
// Model query
// ---------------------------------------------------------------------------

// modelPrelude gives the helper functions their exact meaning (no quantified axioms) for model finding.
func modelPrelude() string { return modelPreludeNL(true) }

func modelPreludeNL(exactNL bool) string {
	s := modelPreludeExact()
	if !exactNL {
		s = strings.Replace(s, "(define-fun nl.div ((a Int) (b Int)) Int (go.div a b))", "(declare-fun nl.div (Int Int) Int)", 1)
		s = strings.Replace(s, "(define-fun nl.mod ((a Int) (b Int)) Int (go.mod a b))", "(declare-fun nl.mod (Int Int) Int)", 1)
		s = strings.Replace(s, "(define-fun nl.mul ((a Int) (b Int)) Int (* a b))", "(declare-fun nl.mul (Int Int) Int)", 1)
	}
	return s
}

func modelPreludeExact() string {
	var sb strings.Builder
	sb.WriteString(`(declare-datatypes ((Slice 0)) (((mk-slice (s.base Int) (s.off Int) (s.len Int) (s.cap Int)))))
(declare-datatypes ((Iface 0)) (((mk-iface (i.tag Int) (i.val Int)))))
(declare-sort Str 0)
(declare-fun gs.len (Str) Int)
(declare-fun gs.at (Str Int) Int)
(declare-fun gs.lt (Str Str) Bool)
(declare-fun gs.sub (Str Int Int) Str)
(declare-fun gs.cat (Str Str) Str)
(declare-fun gs.ofbytes (Int Int Int (Array Int Int)) Str)
(declare-const gs.empty Str)
(assert (= (gs.len gs.empty) 0))
(define-fun go.div ((a Int) (b Int)) Int (ite (>= a 0) (ite (> b 0) (div a b) (- (div a (- b)))) (ite (> b 0) (- (div (- a) b)) (div (- a) (- b)))))
(define-fun go.mod ((a Int) (b Int)) Int (- a (* b (go.div a b))))
(define-fun idx ((o Int) (i Int)) Int (+ o i))
(define-fun nl.div ((a Int) (b Int)) Int (go.div a b))
(define-fun nl.mod ((a Int) (b Int)) Int (go.mod a b))
(define-fun nl.mul ((a Int) (b Int)) Int (* a b))
(declare-fun bit.and (Int Int) Int)
(declare-fun bit.or (Int Int) Int)
(declare-fun bit.xor (Int Int) Int)
(declare-fun bit.andnot (Int Int) Int)
`)
	sb.WriteString("(define-fun pow2 ((k Int)) Int ")
	for k := 0; k < 64; k++ {
		fmt.Fprintf(&sb, "(ite (<= k %d) %s ", k, pow2lit(k))
	}
	sb.WriteString(pow2lit(64) + strings.Repeat(")", 64) + ")\n")
	sb.WriteString("(define-fun bit8 ((a Int) (k Int)) Bool (= (mod (div a (pow2 k)) 2) 1))\n")
	sb.WriteString("(define-fun val8 ((a Int)) Int (mod a 256))\n")
	for _, op := range []string{"and", "or", "xor"} {
		fmt.Fprintf(&sb, "(define-fun b%s8 ((a Int) (b Int)) Int (+", op)
		for k := 0; k < 8; k++ {
			fmt.Fprintf(&sb, " (ite (%s (= (mod (div a %d) 2) 1) (= (mod (div b %d) 2) 1)) %d 0)", op, 1<<k, 1<<k, 1<<k)
		}
		sb.WriteString("))\n")
	}
	sb.WriteString("(define-fun bnot8 ((a Int)) Int (- 255 (mod a 256)))\n")
	sb.WriteString("(define-fun shl8 ((a Int) (k Int)) Int (mod (* a (pow2 k)) 256))\n")
	sb.WriteString("(define-fun shr8 ((a Int) (k Int)) Int (div (mod a 256) (pow2 k)))\n")
	// abstract byte sequences and object keys (uninterpreted in candidate models; their quantified axioms are dropped)
	sb.WriteString("(declare-sort BSeq 0)\n(declare-fun bs.lt (BSeq BSeq) Bool)\n(declare-fun bs.len (BSeq) Int)\n(declare-fun bs.pfx (BSeq Int) BSeq)\n(declare-fun bseq ((Array Int Int) Int Int) BSeq)\n(declare-fun bseq.str (Str) BSeq)\n(declare-const bs.empty BSeq)\n")
	sb.WriteString("(declare-fun okey (Int Int) Int)\n(declare-fun okey.t (Int) Int)\n(declare-fun okey.v (Int) Int)\n(declare-fun intr (Int Int) Int)\n(declare-fun intr.r (Int) Int)\n(declare-fun intr.f (Int) Int)\n")
	return sb.String()
}

func hasQuantifier(cmd string) bool {
	return strings.Contains(cmd, "(forall ") || strings.Contains(cmd, "(exists ")
}

// modelQuery: the failed query with every quantified assertion dropped and helper functions defined exactly.
// A model of it is only a *candidate* failing input; the replay on the real code decides.
func (c *Ctx) modelQuery(o *Obligation, extra []string, getValues []string, exactNL bool) string {
	var sb strings.Builder
	sb.WriteString("(set-option :produce-models true)\n(set-logic ALL)\n")
	sb.WriteString(modelPreludeNL(exactNL))
	for _, l := range c.sortCmds {
		sb.WriteString(l + "\n")
	}
	for _, l := range c.declCmds {
		sb.WriteString(l + "\n")
	}
	for _, l := range c.smtLines() {
		if !hasQuantifier(l) {
			sb.WriteString(l + "\n")
		}
	}
	for _, l := range c.strLitFacts() {
		sb.WriteString(l + "\n")
	}
	// instantiation terms: parameters and skolem constants
	terms := map[string][]string{}
	for _, d := range c.declCmds {
		f := strings.Fields(strings.TrimSuffix(strings.TrimPrefix(d, "(declare-const "), ")"))
		if len(f) == 2 && strings.HasPrefix(d, "(declare-const ") && (strings.HasPrefix(f[0], "sk_") || strings.HasPrefix(f[0], "p_")) {
			terms[f[1]] = append(terms[f[1]], f[0])
		}
	}
	for k, ts := range terms {
		// the most recently introduced constants (goal skolems) matter most
		if len(ts) > 8 {
			terms[k] = ts[len(ts)-8:]
		}
	}
	budget := 400
	for _, l := range o.Path.slice() {
		if hasQuantifier(l) {
			if strings.HasPrefix(l, "(assert ") {
				for _, n := range parseSx(l) {
					sb.WriteString(instQuant(n, terms, &budget).String() + "\n")
				}
			}
			continue
		}
		sb.WriteString(l + "\n")
	}
	if !hasQuantifier(o.Goal) {
		sb.WriteString("(assert (not " + o.Goal + "))\n")
	} else {
		for _, n := range parseSx("(assert (not " + o.Goal + "))") {
			sb.WriteString(instQuant(n, terms, &budget).String() + "\n")
		}
	}
	for _, l := range extra {
		sb.WriteString(l + "\n")
	}
	sb.WriteString("(check-sat)\n")
	if len(getValues) > 0 {
		sb.WriteString("(get-value (" + strings.Join(getValues, " ") + "))\n")
	}
	return sb.String()
}

// parseGetValue parses ((term value) ...) into a map from normalised term text to value text.
func parseGetValue(out string) map[string]string {
	res := map[string]string{}
	i := strings.Index(out, "((")
	if i < 0 {
		return res
	}
	s := out[i+1:]
	// s is a sequence of (term value) pairs followed by ")"
	pos := 0
	for pos < len(s) {
		for pos < len(s) && (s[pos] == ' ' || s[pos] == '\n' || s[pos] == '\t' || s[pos] == '\r') {
			pos++
		}
		if pos >= len(s) || s[pos] != '(' {
			break
		}
		end := matchParen(s, pos)
		if end < 0 {
			break
		}
		pair := s[pos+1 : end]
		// split pair into two s-expressions
		a, rest := readSexp(pair)
		v, _ := readSexp(rest)
		res[normTerm(a)] = normTerm(v)
		pos = end + 1
	}
	return res
}

func readSexp(s string) (string, string) {
	s = strings.TrimLeft(s, " \n\t\r")
	if s == "" {
		return "", ""
	}
	if s[0] == '(' {
		e := matchParen(s, 0)
		if e < 0 {
			return s, ""
		}
		return s[:e+1], s[e+1:]
	}
	if s[0] == '|' {
		e := strings.Index(s[1:], "|")
		if e >= 0 {
			return s[:e+2], s[e+2:]
		}
	}
	e := strings.IndexAny(s, " \n\t\r")
	if e < 0 {
		return s, ""
	}
	return s[:e], s[e:]
}

// ---------------------------------------------------------------------------
// Replay
// ---------------------------------------------------------------------------

func tryReplay(c *Ctx, o *Obligation, dir string, qi int, secs int) map[string]interface{} {
	res := map[string]interface{}{"reproduced": false}
	fn := c.Fn
	if fn.Parent() != nil {
		res["verdict"] = "closure: cannot be called directly"
		return res
	}
	if fn.TypeParams().Len() > 0 || len(fn.TypeArgs()) > 0 {
		res["verdict"] = "generic instantiation: replay not supported"
		return res
	}
	// input shapes over the entry heap
	b := &shapeBuilder{c: c, heap: func(name, sort string) string { return compIn(c, Heap{}, name, sort) }}
	var shapes []*Shape
	for i, p := range fn.Params {
		t, ok := c.paramTerms[i].(string)
		if !ok {
			res["verdict"] = "parameter " + p.Name() + " has no first-order value"
			return res
		}
		shapes = append(shapes, b.build(t, p.Type(), 0))
	}
	// prefer small inputs
	var small []string
	var collectSmall func(sh *Shape)
	collectSmall = func(sh *Shape) {
		switch sh.Kind {
		case "slice":
			small = append(small, fmt.Sprintf("(assert (<= %s %d))", sh.LenTerm, replayMaxElems))
			for _, f := range c.wf(sh.Term, sh.Ty, 0) {
				small = append(small, "(assert "+f+")")
			}
			for _, e := range sh.Elems {
				collectSmall(e)
			}
		case "time":
			small = append(small, fmt.Sprintf("(assert (and (< (- 4000000000000000000) %s) (< %s 4000000000000000000)))", sh.Term, sh.Term))
		case "string":
			small = append(small, fmt.Sprintf("(assert (<= %s %d))", sh.LenTerm, 2*replayMaxElems))
		case "ptr":
			if sh.Pointee != nil {
				collectSmall(sh.Pointee)
			}
		case "struct":
			for _, f := range sh.Fields {
				collectSmall(f)
			}
		}
	}
	for _, sh := range shapes {
		collectSmall(sh)
	}
	// abstract ("ghost") part of the input: skolem witnesses and ground applications of the uninterpreted spec
	// functions declared in contract files; their model values are part of the counterexample
	ghostTerms := c.ghostAtoms(o)
	// candidate models, best first: the full query (quantified facts kept; an `unknown` answer still carries the
	// solver's candidate), then the quantifier-free relaxation
	type cand struct {
		vals map[string]string
		src  string
	}
	var cands []cand
	var status []string
	seen := map[string]bool{}
	addCand := func(v map[string]string, src string) {
		if len(v) == 0 {
			return
		}
		keys := make([]string, 0, len(v))
		for k := range v {
			keys = append(keys, k+"="+v[k])
		}
		sort.Strings(keys)
		sig := strings.Join(keys, ";")
		if seen[sig] {
			return
		}
		seen[sig] = true
		cands = append(cands, cand{v, src})
	}
	fullQ := func(extra []string) string {
		q := c.queryText(o, false)
		q = strings.TrimSuffix(strings.TrimSpace(q), "(check-sat)")
		return q + strings.Join(extra, "\n") + "\n(check-sat)\n(get-value (" + strings.Join(append(append([]string{}, b.terms...), ghostTerms...), " ") + "))\n"
	}
	var wfOnly []string
	for _, a := range small {
		if !strings.Contains(a, "(assert (<= ") {
			wfOnly = append(wfOnly, a)
		}
	}
	for attempt, extra := range [][]string{small, wfOnly} {
		qf := filepath.Join(dir, fmt.Sprintf("model_%d_full%d.smt2", qi, attempt))
		os.WriteFile(qf, []byte(fullQ(extra)), 0o644)
		for _, sc := range []solverCfg{
			{"z3-new", func(f string, t int) []string { return []string{"z3-new", fmt.Sprintf("-t:%d", t*1000), "-smt2", f} }},
			{"cvc5", func(f string, t int) []string { return []string{"cvc5", "--dag-thresh=0", fmt.Sprintf("--tlimit-per=%d", t*1000), f} }},
		} {
			r, out, _ := runSolver(sc, qf, 5)
			status = append(status, fmt.Sprintf("full%d/%s:%s", attempt, sc.name, r))
			if r == "sat" || r == "unknown" {
				addCand(parseGetValue(out), fmt.Sprintf("%s on the full query (%s)", sc.name, r))
			}
		}
		for _, exact := range []bool{true, false} {
			qf2 := filepath.Join(dir, fmt.Sprintf("model_%d_qf%d_%v.smt2", qi, attempt, exact))
			os.WriteFile(qf2, []byte(c.modelQuery(o, extra, append(append([]string{}, b.terms...), ghostTerms...), exact)), 0o644)
			found := false
			for _, sc := range []solverCfg{solvers[0],
				{"cvc5", func(f string, t int) []string { return []string{"cvc5", "--dag-thresh=0", fmt.Sprintf("--tlimit=%d", t*1000), f} }}} {
				r, out, _ := runSolver(sc, qf2, 4)
				status = append(status, fmt.Sprintf("qf%d(exactNL=%v)/%s:%s", attempt, exact, sc.name, r))
				if r == "sat" {
					addCand(parseGetValue(out), sc.name+" on the instantiated quantifier-free relaxation")
					found = true
					break
				}
			}
			if found {
				break
			}
		}
		if len(cands) >= 3 {
			break
		}
	}
	res["model_search"] = status
	if len(cands) == 0 {
		res["verdict"] = "no candidate model (" + strings.Join(status, " ") + ")"
		seed := 1
		if v := os.Getenv("VERIF_SEED"); v != "" {
			seed = atoiSafe(v)
		}
		for _, sh := range shapes {
			sh.fill(map[string]string{})
		}
		ws := witnessSearch(c, o, dir, qi, shapes, seed)
		res["witness_search"] = ws
		if rep, _ := ws["reproduced"].(bool); rep {
			res["reproduced"] = true
			res["verdict"] = ws["verdict"]
		}
		return res
	}
	var last map[string]interface{}
	for ci, cd := range cands {
		if ci >= 3 {
			break
		}
		r := replayCandidate(c, o, dir, qi*10+ci, shapes, cd.vals, ghostTerms)
		r["model_source"] = cd.src
		last = r
		if rep, _ := r["reproduced"].(bool); rep {
			break
		}
	}
	for k, v := range last {
		res[k] = v
	}
	res["candidates_tried"] = minInt(len(cands), 3)
	if rep, _ := res["reproduced"].(bool); !rep {
		seed := 1
		if v := os.Getenv("VERIF_SEED"); v != "" {
			seed = atoiSafe(v)
		}
		ws := witnessSearch(c, o, dir, qi, shapes, seed)
		res["witness_search"] = ws
		if rep, _ := ws["reproduced"].(bool); rep {
			res["reproduced"] = true
			res["verdict"] = ws["verdict"]
		}
	}
	return res
}

type replayCase struct {
	shapes     []*Shape
	args       []string
	argTypes   []string
	ghostFacts []string
	notes      []string
	source     string
}

// prepareCase validates concrete inputs against the preconditions and renders them for the test harness.
func prepareCase(c *Ctx, dir string, qi int, shapes []*Shape, ghostFacts []string, source string) (*replayCase, string) {
	if ok, why := c.inputsSatisfyRequires(shapes, ghostFacts, dir, qi); !ok {
		return nil, "candidate input rejected: " + why
	}
	pkg := c.pkgOf(c.Fn)
	qual := func(p *types.Package) string {
		if p == pkg {
			return ""
		}
		return p.Name()
	}
	rc := &replayCase{shapes: shapes, ghostFacts: ghostFacts, source: source}
	for _, sh := range shapes {
		jb, _ := json.Marshal(sh.toJSON(&rc.notes))
		rc.args = append(rc.args, string(jb))
		rc.argTypes = append(rc.argTypes, types.TypeString(sh.Ty, qual))
	}
	return rc, ""
}

// runCases runs the real function on every case with one `go test` invocation; returns the observations by index.
func runCases(c *Ctx, dir string, qi int, cases []*replayCase) (map[int]map[string]interface{}, map[string]interface{}) {
	info := map[string]interface{}{}
	fn := c.Fn
	pkg := c.pkgOf(fn)
	qual := func(p *types.Package) string {
		if p == pkg {
			return ""
		}
		return p.Name()
	}
	call, ok := callExpr(fn, make([]string, len(fn.Params)), qual)
	if !ok || len(cases) == 0 {
		info["error"] = "cannot build a call expression for " + c.Key
		return nil, info
	}
	imports := map[string]bool{}
	collectImports(fn, pkg, imports)
	src := genReplayTest(pkg, fn, call, cases, imports)
	testFile := filepath.Join(dir, fmt.Sprintf("replay_%d_test.go", qi))
	os.WriteFile(testFile, []byte(src), 0o644)
	pkgDir := filepath.Join(repoDir(), strings.TrimPrefix(pkg.Path(), modPath))
	ov := map[string]interface{}{"Replace": map[string]string{filepath.Join(pkgDir, "zz_vcgo_replay_test.go"): testFile}}
	ovb, _ := json.Marshal(ov)
	ovFile := filepath.Join(dir, fmt.Sprintf("overlay_%d.json", qi))
	os.WriteFile(ovFile, ovb, 0o644)
	cmd := exec.Command("go", "test", "-overlay", ovFile, "-vet=off", "-count=1", "-timeout", "60s", "-v", "-run", "^TestVcgoReplay$", ".")
	cmd.Dir = pkgDir
	outb, _ := cmd.CombinedOutput()
	out := string(outb)
	info["go_test_cmd"] = fmt.Sprintf("cd %s && go test -overlay %s -vet=off -count=1 -timeout 60s -v -run '^TestVcgoReplay$' .", pkgDir, ovFile)
	obs := map[int]map[string]interface{}{}
	for _, l := range strings.Split(out, "\n") {
		if j := strings.Index(l, "VCGO-RESULT:"); j >= 0 {
			rest := l[j+len("VCGO-RESULT:"):]
			k := strings.Index(rest, ":")
			if k < 0 {
				continue
			}
			idx := atoiSafe(rest[:k])
			var o map[string]interface{}
			if json.Unmarshal([]byte(rest[k+1:]), &o) == nil {
				obs[idx] = o
			}
		}
	}
	if len(out) > 4000 {
		out = out[:4000]
	}
	info["go_test_output"] = out
	if strings.Contains(out, "panic: test timed out") {
		info["timed_out"] = true
	}
	return obs, info
}

// judgeCase decides whether the observation reproduces the failed obligation.
func judgeCase(c *Ctx, o *Obligation, dir string, qi int, rc *replayCase, obs map[string]interface{}) (bool, string, map[string]interface{}) {
	panicked, _ := obs["panic"].(string)
	kind := o.Kind
	if panicked != "" {
		// a panic reproduces the failure only if it is the kind of failure the obligation guards against
		match := false
		switch {
		case strings.HasPrefix(kind, "safe-idx"):
			match = strings.Contains(panicked, "index out of range")
		case strings.HasPrefix(kind, "safe-slice"):
			match = strings.Contains(panicked, "slice bounds out of range")
		case strings.HasPrefix(kind, "safe-nil"):
			match = strings.Contains(panicked, "nil pointer") || strings.Contains(panicked, "nil map")
		case strings.HasPrefix(kind, "safe-div"):
			match = strings.Contains(panicked, "divide by zero")
		case strings.HasPrefix(kind, "safe-assert"):
			match = strings.Contains(panicked, "interface conversion")
		case strings.HasPrefix(kind, "safe-make"):
			match = strings.Contains(panicked, "makeslice") || strings.Contains(panicked, "out of range")
		case strings.HasPrefix(kind, "safe-panic"):
			match = !strings.Contains(panicked, "runtime error")
		case strings.HasPrefix(kind, "pre#"):
			match = true
		case strings.HasPrefix(kind, "post#"):
			match = rc.source == "model"
		}
		if match {
			return true, "real code panics on this input: " + panicked, nil
		}
		return false, "real code panics on this input (" + panicked + "), but not with the failure this obligation guards against", nil
	}
	switch {
	case strings.HasPrefix(kind, "post#"):
		v, detail := c.evalPostOnObserved(o, rc.shapes, obs, dir, qi, rc.ghostFacts)
		if v == "violated" {
			return true, "postcondition is false for the values the real code returned on this input", detail
		}
		return false, "postcondition " + v + " on the candidate input", detail
	case strings.HasPrefix(kind, "safe-") || strings.HasPrefix(kind, "pre#") || strings.HasPrefix(kind, "ovf"):
		return false, "real code does not panic on the candidate input", nil
	}
	return false, "intermediate-state obligation: not observable from outside, real code ran without panic", nil
}

func replayCandidate(c *Ctx, o *Obligation, dir string, qi int, shapes []*Shape, vals map[string]string, ghostTerms []string) map[string]interface{} {
	res := map[string]interface{}{"reproduced": false}
	var ghostFacts []string
	for _, g := range ghostTerms {
		if v, ok := vals[normTerm(g)]; ok && !strings.Contains(v, "(as ") && !strings.Contains(v, "(_ ") {
			ghostFacts = append(ghostFacts, fmt.Sprintf("(assert (= %s %s))", g, v))
		}
	}
	res["abstract_state"] = ghostFacts
	for _, sh := range shapes {
		sh.fill(vals)
	}
	rc, why := prepareCase(c, dir, qi, shapes, ghostFacts, "model")
	if rc == nil {
		res["verdict"] = why
		return res
	}
	res["inputs"] = rc.args
	res["notes"] = rc.notes
	obs, info := runCases(c, dir, qi, []*replayCase{rc})
	for k, v := range info {
		res[k] = v
	}
	ob := obs[0]
	if ob == nil {
		res["verdict"] = "replay test did not run (build error or timeout)"
		if info["timed_out"] != nil {
			res["verdict"] = "real code did not terminate within 60s on the model input"
			res["reproduced"] = strings.HasPrefix(o.Kind, "dec#")
		}
		return res
	}
	res["observed"] = ob
	rep, verdict, detail := judgeCase(c, o, dir, qi, rc, ob)
	res["reproduced"] = rep
	res["verdict"] = verdict
	if detail != nil {
		res["post_check"] = detail
	}
	return res
}

// ---------------------------------------------------------------------------
// Bounded witness search: when no model-derived input reproduces the failure, small inputs are enumerated
// (pseudo-randomly, seeded), filtered by the preconditions, and run against the real code in one batch.
// It can only ever turn "no-failing-input-found" into a reproduced violation; it never decides a pass.
// ---------------------------------------------------------------------------

type lcg struct{ s uint64 }

func (r *lcg) next() uint64 {
	r.s = r.s*6364136223846793005 + 1442695040888963407
	return r.s >> 33
}
func (r *lcg) intn(n int) int { return int(r.next() % uint64(n)) }

func (sh *Shape) clone() *Shape {
	n := *sh
	n.Fields = nil
	for _, f := range sh.Fields {
		n.Fields = append(n.Fields, f.clone())
	}
	n.Elems = nil
	for _, e := range sh.Elems {
		n.Elems = append(n.Elems, e.clone())
	}
	if sh.Pointee != nil {
		n.Pointee = sh.Pointee.clone()
	}
	return &n
}

func (sh *Shape) randomize(c *Ctx, r *lcg, depth int) {
	switch sh.Kind {
	case "int":
		pool := []string{"0", "1", "2", "3", "5", "7", "8", "9", "10", "100", "1000", "4096", "65535", "65536"}
		if b := c.basicInt(sh.Ty); b != nil {
			if lo, hi, ok := intRange(b); ok {
				pool = append(pool, smtInt(hi), smtInt(new(big.Int).Sub(hi, big.NewInt(1))))
				if lo.Sign() < 0 {
					pool = append(pool, "(- 1)", "(- 2)", smtInt(lo), smtInt(new(big.Int).Add(lo, big.NewInt(1))))
				}
				if hi.BitLen() < 60 {
					// small types: keep pool values in range
					var p2 []string
					for _, v := range pool {
						if bv := smtIntValue(v); bv != nil && bv.Cmp(lo) >= 0 && bv.Cmp(hi) <= 0 {
							p2 = append(p2, v)
						}
					}
					pool = p2
				}
			}
		}
		if sh.Val != "" && r.intn(4) == 0 {
			return // keep the model value
		}
		sh.Val = pool[r.intn(len(pool))]
	case "bool":
		if r.intn(2) == 0 {
			sh.Val = "true"
		} else {
			sh.Val = "false"
		}
	case "float":
		sh.Val = []string{"0.0", "1.0", "(- 1.0)", "0.5", "100.0"}[r.intn(5)]
	case "time":
		sh.Val = []string{"0", "1000000000", "1700000000000000000", "(- 1000000000)", "1700000060000000000"}[r.intn(5)]
	case "string":
		n := r.intn(4)
		bs := make([]byte, n)
		for i := range bs {
			bs[i] = "ab*0 :"[r.intn(6)]
		}
		sh.Val = string(bs)
		sh.Len = n
	case "slice":
		sh.IsNil = r.intn(6) == 0
		sh.Len = r.intn(4)
		if depth > 1 {
			sh.Len = r.intn(3)
		}
		if sh.IsNil {
			sh.Len = 0
		}
		for k := 0; k < sh.Len && k < len(sh.Elems); k++ {
			sh.Elems[k].randomize(c, r, depth+1)
		}
	case "ptr":
		sh.IsNil = sh.Pointee == nil || (depth > 0 && r.intn(5) == 0)
		if !sh.IsNil {
			sh.Pointee.randomize(c, r, depth+1)
		}
	case "struct":
		for _, f := range sh.Fields {
			f.randomize(c, r, depth+1)
		}
	}
}

func witnessSearch(c *Ctx, o *Obligation, dir string, qi int, shapes []*Shape, seed int) map[string]interface{} {
	res := map[string]interface{}{"reproduced": false}
	r := &lcg{s: uint64(seed)*2654435761 + 12345}
	const tries = 60
	const keep = 24
	type cand struct {
		sh []*Shape
		rc *replayCase
	}
	var mu sync.Mutex
	var valid []*replayCase
	var wg sync.WaitGroup
	sem := make(chan struct{}, 16)
	var all [][]*Shape
	for t := 0; t < tries; t++ {
		var cp []*Shape
		for _, sh := range shapes {
			n := sh.clone()
			n.randomize(c, r, 0)
			cp = append(cp, n)
		}
		all = append(all, cp)
	}
	rejected := 0
	for t, cp := range all {
		wg.Add(1)
		sem <- struct{}{}
		go func(t int, cp []*Shape) {
			defer wg.Done()
			defer func() { <-sem }()
			rc, _ := prepareCase(c, dir, 1000+qi*100+t, cp, nil, "witness search")
			mu.Lock()
			if rc != nil && len(valid) < keep {
				valid = append(valid, rc)
			} else if rc == nil {
				rejected++
			}
			mu.Unlock()
		}(t, cp)
	}
	wg.Wait()
	res["generated"] = tries
	res["rejected_by_preconditions"] = rejected
	res["run"] = len(valid)
	if len(valid) == 0 {
		res["verdict"] = "witness search: no generated input satisfies the preconditions"
		return res
	}
	obs, info := runCases(c, dir, 900+qi, valid)
	res["go_test_cmd"] = info["go_test_cmd"]
	for i, rc := range valid {
		ob := obs[i]
		if ob == nil {
			continue
		}
		rep, verdict, detail := judgeCase(c, o, dir, 900+qi, rc, ob)
		if rep {
			res["reproduced"] = true
			res["verdict"] = "witness search: " + verdict
			res["inputs"] = rc.args
			res["observed"] = ob
			if detail != nil {
				res["post_check"] = detail
			}
			// keep a single-case test file for the failing input
			runCases(c, dir, 950+qi, []*replayCase{rc})
			return res
		}
	}
	if info["timed_out"] != nil {
		res["verdict"] = "witness search: the real code did not terminate within 60 s on one of the inputs"
		return res
	}
	res["verdict"] = fmt.Sprintf("witness search: none of %d precondition-satisfying small inputs reproduces the failure", len(valid))
	return res
}

func minInt(a, b int) int {
	if a < b {
		return a
	}
	return b
}

func callExpr(fn *ssa.Function, args []string, qual types.Qualifier) (string, bool) {
	if recv := fn.Signature.Recv(); recv != nil {
		if len(args) == 0 {
			return "", false
		}
		return fmt.Sprintf("(a0).%s(%s)", fn.Name(), strings.Join(argNames(len(args)-1, 1), ", ")), true
	}
	return fmt.Sprintf("%s(%s)", fn.Name(), strings.Join(argNames(len(args), 0), ", ")), true
}

func argNames(n, from int) []string {
	var out []string
	for i := 0; i < n; i++ {
		out = append(out, fmt.Sprintf("a%d", from+i))
	}
	return out
}

func collectImports(fn *ssa.Function, pkg *types.Package, imports map[string]bool) {
	var walk func(t types.Type, d int)
	walk = func(t types.Type, d int) {
		if d > 5 {
			return
		}
		switch t := types.Unalias(t).(type) {
		case *types.Named:
			if t.Obj().Pkg() != nil && t.Obj().Pkg() != pkg {
				imports[t.Obj().Pkg().Path()] = true
			}
			if t.Obj().Pkg() == pkg {
				walk(t.Underlying(), d+1)
			}
		case *types.Pointer:
			walk(t.Elem(), d+1)
		case *types.Slice:
			walk(t.Elem(), d+1)
		case *types.Array:
			walk(t.Elem(), d+1)
		case *types.Struct:
			for i := 0; i < t.NumFields(); i++ {
				walk(t.Field(i).Type(), d+1)
			}
		}
	}
	for _, p := range fn.Params {
		walk(p.Type(), 0)
	}
}

func genReplayTest(pkg *types.Package, fn *ssa.Function, call string, cases []*replayCase, imports map[string]bool) string {
	var sb strings.Builder
	fmt.Fprintf(&sb, "package %s\n\nimport (\n\t\"encoding/json\"\n\t\"fmt\"\n\t\"math/big\"\n\t\"reflect\"\n\t\"testing\"\n\t\"time\"\n\t\"unsafe\"\n", pkg.Name())
	var imps []string
	for p := range imports {
		imps = append(imps, p)
	}
	sort.Strings(imps)
	argTypes := cases[0].argTypes
	allArgs := strings.Join(argTypes, " ")
	for _, p := range imps {
		if p == "encoding/json" || p == "fmt" || p == "reflect" || p == "testing" || p == "time" || p == "unsafe" || p == "math/big" {
			continue
		}
		base := p[strings.LastIndex(p, "/")+1:]
		if pk := fn.Prog.ImportedPackage(p); pk != nil {
			base = pk.Pkg.Name()
		}
		if !strings.Contains(allArgs, base+".") {
			continue
		}
		fmt.Fprintf(&sb, "\t%q\n", p)
	}
	sb.WriteString(")\n\n")
	sb.WriteString(replayDumper)
	sb.WriteString("\nvar vcgoCases = [][]string{\n")
	for _, rc := range cases {
		sb.WriteString("\t{")
		for _, a := range rc.args {
			fmt.Fprintf(&sb, "%q, ", a)
		}
		sb.WriteString("},\n")
	}
	sb.WriteString("}\n")
	sb.WriteString("\nfunc TestVcgoReplay(t *testing.T) {\n")
	sb.WriteString("\tvar _ = time.Now\n\tvar _ unsafe.Pointer\n\tvar _ = big.NewInt\n")
	// the function under replay may create files named by the candidate input: not in the package directory of the tree
	sb.WriteString("\tt.Chdir(t.TempDir())\n")
	sb.WriteString("\tfor ci, cs := range vcgoCases {\n\t\t_ = cs\n")
	for i := range argTypes {
		fmt.Fprintf(&sb, "\t\tvar a%d %s\n\t\tvcgoBuild(reflect.ValueOf(&a%d).Elem(), cs[%d])\n", i, argTypes[i], i, i)
	}
	sb.WriteString("\t\tout := map[string]interface{}{}\n")
	sb.WriteString("\t\tfunc() {\n\t\t\tdefer func() {\n\t\t\t\tif r := recover(); r != nil {\n\t\t\t\t\tout[\"panic\"] = fmt.Sprint(r)\n\t\t\t\t}\n\t\t\t}()\n")
	nres := fn.Signature.Results().Len()
	if nres == 0 {
		fmt.Fprintf(&sb, "\t\t\t%s\n", call)
	} else {
		var rs []string
		for i := 0; i < nres; i++ {
			rs = append(rs, fmt.Sprintf("r%d", i))
		}
		fmt.Fprintf(&sb, "\t\t\t%s := %s\n", strings.Join(rs, ", "), call)
		for i := 0; i < nres; i++ {
			fmt.Fprintf(&sb, "\t\t\tout[\"result%d\"] = vcgoDump(reflect.ValueOf(&r%d).Elem(), 0)\n", i, i)
		}
	}
	sb.WriteString("\t\t}()\n")
	for i := range argTypes {
		fmt.Fprintf(&sb, "\t\tout[\"arg%d\"] = vcgoDump(reflect.ValueOf(&a%d).Elem(), 0)\n", i, i)
	}
	sb.WriteString("\t\tb, _ := json.Marshal(out)\n\t\tfmt.Printf(\"VCGO-RESULT:%d:%s\\n\", ci, string(b))\n\t}\n}\n")
	return sb.String()
}

const replayDumper = `
// vcgoBuild constructs a value (unexported and foreign fields included) from its JSON description.
func vcgoBuild(v reflect.Value, desc string) {
	var d interface{}
	json.Unmarshal([]byte(desc), &d)
	vcgoSet(v, d)
}

func vcgoSettable(v reflect.Value) reflect.Value {
	if v.CanSet() {
		return v
	}
	return reflect.NewAt(v.Type(), unsafe.Pointer(v.UnsafeAddr())).Elem()
}

func vcgoSet(v reflect.Value, d interface{}) {
	m, ok := d.(map[string]interface{})
	if !ok {
		return
	}
	v = vcgoSettable(v)
	if ns, ok := m["time_ns"].(string); ok && v.Type().PkgPath() == "time" && v.Type().Name() == "Time" {
		b, _ := new(big.Int).SetString(ns, 10)
		sec, nsec := new(big.Int), new(big.Int)
		sec.DivMod(b, big.NewInt(1000000000), nsec)
		v.Set(reflect.ValueOf(time.Unix(sec.Int64(), nsec.Int64()).UTC()))
		return
	}
	switch v.Kind() {
	case reflect.Bool:
		b, _ := m["bool"].(bool)
		v.SetBool(b)
	case reflect.Int, reflect.Int8, reflect.Int16, reflect.Int32, reflect.Int64:
		s, _ := m["int"].(string)
		b, _ := new(big.Int).SetString(s, 10)
		if b != nil {
			v.SetInt(b.Int64())
		}
	case reflect.Uint, reflect.Uint8, reflect.Uint16, reflect.Uint32, reflect.Uint64, reflect.Uintptr:
		s, _ := m["int"].(string)
		b, _ := new(big.Int).SetString(s, 10)
		if b != nil {
			v.SetUint(b.Uint64())
		}
	case reflect.Float32, reflect.Float64:
		f, _ := m["float"].(float64)
		v.SetFloat(f)
	case reflect.String:
		s, _ := m["str"].(string)
		var bs []byte
		json.Unmarshal([]byte("\"" + s + "\""), &bs)
		v.SetString(string(bs))
	case reflect.Slice:
		if isnil, _ := m["nil"].(bool); isnil {
			return
		}
		es, _ := m["slice"].([]interface{})
		sl := reflect.MakeSlice(v.Type(), len(es), len(es))
		for i, e := range es {
			vcgoSet(sl.Index(i), e)
		}
		v.Set(sl)
	case reflect.Ptr:
		if isnil, _ := m["nil"].(bool); isnil {
			return
		}
		p := reflect.New(v.Type().Elem())
		vcgoSet(p.Elem(), m["ptr"])
		v.Set(p)
	case reflect.Struct:
		fm, _ := m["struct"].(map[string]interface{})
		for i := 0; i < v.NumField(); i++ {
			if fd, ok := fm[v.Type().Field(i).Name]; ok {
				vcgoSet(v.Field(i), fd)
			}
		}
	}
}

// vcgoDump renders a value (including unexported fields) as JSON-able data.
func vcgoDump(v reflect.Value, depth int) interface{} {
	if depth > 6 || !v.IsValid() {
		return nil
	}
	switch v.Kind() {
	case reflect.Bool:
		return v.Bool()
	case reflect.Int, reflect.Int8, reflect.Int16, reflect.Int32, reflect.Int64:
		return fmt.Sprint(v.Int())
	case reflect.Uint, reflect.Uint8, reflect.Uint16, reflect.Uint32, reflect.Uint64, reflect.Uintptr:
		return fmt.Sprint(v.Uint())
	case reflect.Float32, reflect.Float64:
		return fmt.Sprintf("%g", v.Float())
	case reflect.String:
		return map[string]interface{}{"str": []byte(v.String())}
	case reflect.Slice:
		if v.IsNil() {
			return map[string]interface{}{"nil": true, "len": 0}
		}
		n := v.Len()
		m := n
		if m > 64 {
			m = 64
		}
		es := make([]interface{}, 0, m)
		for i := 0; i < m; i++ {
			es = append(es, vcgoDump(v.Index(i), depth+1))
		}
		return map[string]interface{}{"len": n, "elems": es}
	case reflect.Array:
		es := []interface{}{}
		for i := 0; i < v.Len() && i < 64; i++ {
			es = append(es, vcgoDump(v.Index(i), depth+1))
		}
		return map[string]interface{}{"len": v.Len(), "elems": es}
	case reflect.Ptr:
		if v.IsNil() {
			return map[string]interface{}{"nil": true}
		}
		return map[string]interface{}{"ptr": vcgoDump(v.Elem(), depth+1)}
	case reflect.Struct:
		if v.Type().PkgPath() == "time" && v.Type().Name() == "Time" {
			if v.CanInterface() {
				return map[string]interface{}{"time_ns": fmt.Sprint(v.Interface().(interface{ UnixNano() int64 }).UnixNano())}
			}
			return map[string]interface{}{"time_ns": "?"}
		}
		m := map[string]interface{}{}
		for i := 0; i < v.NumField(); i++ {
			m[v.Type().Field(i).Name] = vcgoDump(v.Field(i), depth+1)
		}
		return map[string]interface{}{"struct": m}
	case reflect.Interface:
		if v.IsNil() {
			return map[string]interface{}{"nil": true}
		}
		return map[string]interface{}{"iface": v.Elem().Type().String()}
	case reflect.Map:
		return map[string]interface{}{"maplen": v.Len()}
	}
	return nil
}
`

// ---------------------------------------------------------------------------
// Checking a postcondition on the values the real code produced
// ---------------------------------------------------------------------------

// observedFacts turns a dumped value into ground facts about a term of the given type in the given heap.
func (c *Ctx) observedFacts(term string, t types.Type, obs interface{}, heap func(name, sort string) string, out *[]string, depth int) {
	if obs == nil || depth > 5 {
		return
	}
	if n, ok := types.Unalias(t).(*types.Named); ok && n.Obj().Pkg() != nil && n.Obj().Pkg().Path() == "time" && n.Obj().Name() == "Time" {
		if m, ok := obs.(map[string]interface{}); ok {
			if ns, ok := m["time_ns"].(string); ok && ns != "?" {
				if _, ok := c.structNames["time.Time"]; ok {
					*out = append(*out, fmt.Sprintf("(assert (= (time.ns %s) %s))", term, smtIntStr(ns)))
				}
			}
		}
		return
	}
	switch u := c.under(t).(type) {
	case *types.Basic:
		switch {
		case u.Info()&types.IsBoolean != 0:
			if b, ok := obs.(bool); ok {
				*out = append(*out, fmt.Sprintf("(assert (= %s %v))", term, b))
			}
		case u.Info()&types.IsInteger != 0:
			if s, ok := obs.(string); ok {
				*out = append(*out, fmt.Sprintf("(assert (= %s %s))", term, smtIntStr(s)))
			}
		case u.Info()&types.IsFloat != 0:
			// floats: not encoded
		case u.Info()&types.IsString != 0:
			if m, ok := obs.(map[string]interface{}); ok {
				bs := decodeBytes(m["str"])
				*out = append(*out, fmt.Sprintf("(assert (= (gs.len %s) %d))", term, len(bs)))
				for i, ch := range bs {
					if i >= 64 {
						break
					}
					*out = append(*out, fmt.Sprintf("(assert (= (gs.at %s %d) %d))", term, i, ch))
				}
			}
		}
	case *types.Slice:
		m, ok := obs.(map[string]interface{})
		if !ok {
			return
		}
		if isnil, _ := m["nil"].(bool); isnil {
			*out = append(*out, fmt.Sprintf("(assert (= %s (mk-slice 0 0 0 0)))", term))
			return
		}
		n := int(toFloat(m["len"]))
		*out = append(*out, fmt.Sprintf("(assert (and (= (s.len %s) %d) (not (= (s.base %s) 0))))", term, n, term))
		cn, cs := c.elemComp(u.Elem())
		es, _ := m["elems"].([]interface{})
		for i, e := range es {
			et := fmt.Sprintf("(select (select %s (s.base %s)) (idx (s.off %s) %d))", heap(cn, cs), term, term, i)
			c.observedFacts(et, u.Elem(), e, heap, out, depth+1)
		}
	case *types.Pointer:
		m, ok := obs.(map[string]interface{})
		if !ok {
			return
		}
		if isnil, _ := m["nil"].(bool); isnil {
			*out = append(*out, fmt.Sprintf("(assert (= %s 0))", term))
			return
		}
		*out = append(*out, fmt.Sprintf("(assert (not (= %s 0)))", term))
		if st := c.structOf(u.Elem()); st != nil {
			sm, _ := m["ptr"].(map[string]interface{})
			fm, _ := sm["struct"].(map[string]interface{})
			for i := 0; i < st.NumFields(); i++ {
				cn, cs, ft := c.fieldComp(u.Elem(), i)
				c.observedFacts(fmt.Sprintf("(select %s %s)", heap(cn, cs), term), ft, fm[st.Field(i).Name()], heap, out, depth+1)
			}
		}
	case *types.Struct:
		m, ok := obs.(map[string]interface{})
		if !ok {
			return
		}
		fm, _ := m["struct"].(map[string]interface{})
		name := c.structSort(t, u)
		for i := 0; i < u.NumFields(); i++ {
			c.observedFacts(fmt.Sprintf("(%s %s)", c.fieldSel(name, u.Field(i).Name(), i), term), u.Field(i).Type(), fm[u.Field(i).Name()], heap, out, depth+1)
		}
	case *types.Interface:
		m, ok := obs.(map[string]interface{})
		if !ok {
			return
		}
		if isnil, _ := m["nil"].(bool); isnil {
			*out = append(*out, fmt.Sprintf("(assert (= (i.tag %s) 0))", term))
		} else {
			*out = append(*out, fmt.Sprintf("(assert (not (= (i.tag %s) 0)))", term))
		}
	}
}

func smtIntStr(s string) string {
	b, ok := new(big.Int).SetString(s, 10)
	if !ok {
		return "0"
	}
	return smtInt(b)
}

func toFloat(v interface{}) float64 {
	switch x := v.(type) {
	case float64:
		return x
	case int:
		return float64(x)
	}
	return 0
}

func decodeBytes(v interface{}) []byte {
	// encoding/json renders []byte as base64
	s, ok := v.(string)
	if !ok {
		return nil
	}
	var b []byte
	json.Unmarshal([]byte(`"`+s+`"`), &b)
	return b
}

// inputFacts pins the entry state to the values used in the replay.
func (sh *Shape) inputFacts(out *[]string) {
	switch sh.Kind {
	case "int", "bool", "float":
		if sh.Val != "" {
			*out = append(*out, fmt.Sprintf("(assert (= %s %s))", sh.Term, sh.Val))
		}
	case "time":
		if sh.Val != "" {
			*out = append(*out, fmt.Sprintf("(assert (= %s %s))", sh.Term, sh.Val))
		}
	case "string":
		*out = append(*out, fmt.Sprintf("(assert (= %s %d))", sh.LenTerm, len(sh.Val)))
		for k := 0; k < len(sh.Val) && k < len(sh.Chars); k++ {
			*out = append(*out, fmt.Sprintf("(assert (= %s %d))", sh.Chars[k], sh.Val[k]))
		}
	case "slice":
		if sh.IsNil {
			*out = append(*out, fmt.Sprintf("(assert %s)", sh.NilTerm))
			*out = append(*out, fmt.Sprintf("(assert (= %s 0))", sh.LenTerm))
			return
		}
		n := sh.Len
		if n > len(sh.Elems) {
			n = len(sh.Elems)
		}
		*out = append(*out, fmt.Sprintf("(assert (not %s))", sh.NilTerm))
		*out = append(*out, fmt.Sprintf("(assert (= %s %d))", sh.LenTerm, n))
		for k := 0; k < n; k++ {
			sh.Elems[k].inputFacts(out)
		}
	case "ptr":
		if sh.IsNil || sh.Pointee == nil {
			*out = append(*out, fmt.Sprintf("(assert %s)", sh.NilTerm))
			return
		}
		*out = append(*out, fmt.Sprintf("(assert (not %s))", sh.NilTerm))
		sh.Pointee.inputFacts(out)
	case "struct":
		for _, f := range sh.Fields {
			f.inputFacts(out)
		}
	}
}

// evalPostOnObserved evaluates the failed ensures clause on the concrete run: inputs as replayed, outputs and
// final state as dumped by the test. Returns "violated", "holds" or "undetermined".
func (c *Ctx) evalPostOnObserved(o *Obligation, shapes []*Shape, obs map[string]interface{}, dir string, qi int, ghostFacts []string) (string, map[string]interface{}) {
	detail := map[string]interface{}{}
	// which ensures clause?
	var k int
	if _, err := fmt.Sscanf(strings.TrimPrefix(o.Kind, "post#"), "%d", &k); err != nil || k < 1 || k > len(c.Spec.Ensures) {
		return "undetermined", detail
	}
	cl := c.Spec.Ensures[k-1]
	c2 := c.cloneDecls()
	s := &State{C: c2, Heap: Heap{}, Cells: map[*Cell]Term{}, CellLocs: map[*Cell]*Loc{}, Ghost: map[string]TV{}}
	c2.declare("WM!0", "Int")
	s.WM = "WM!0"
	final := func(name, sort string) string {
		n := "|" + name + "@final|"
		c2.declare(n, sort)
		c2.compSorts[name] = sort
		s.Heap[name] = n
		return n
	}
	initial := func(name, sort string) string { return compIn(c2, Heap{}, name, sort) }
	fr := c2.newFrame(c.Fn, nil)
	s.Frame = fr
	var facts []string
	for i, p := range c.Fn.Params {
		t := c.paramTerms[i].(string)
		c2.declare(t, c2.sortOf(p.Type()))
		fr.Params = append(fr.Params, t)
		fr.Vals[p] = t
		shapes[i].inputFacts(&facts)
		// final state of what the arguments point to
		c2.observedFacts(t, p.Type(), obs[fmt.Sprintf("arg%d", i)], final, &facts, 0)
	}
	s.Old = &Snapshot{Heap: Heap{"\x00epoch": "0"}, Cells: map[*Cell]Term{}, Ghost: map[string]TV{}}
	// make sure every component mentioned for the final heap exists in s.Heap before evaluation:
	// components not observed keep their entry value
	env := c2.funcEnv(s, fr, true)
	sig := c.Fn.Signature
	for i := 0; i < sig.Results().Len(); i++ {
		rt := sig.Results().At(i).Type()
		name := fmt.Sprintf("res!%d", i)
		c2.declare(name, c2.sortOf(rt))
		for _, f := range c2.wf(name, rt, 0) {
			facts = append(facts, "(assert "+f+")")
		}
		tv := c2.mkTV(name, rt)
		env.Vars[fmt.Sprintf("result%d", i)] = tv
		if n := sig.Results().At(i).Name(); n != "" && n != "_" {
			env.Vars[n] = tv
		}
		if sig.Results().Len() == 1 {
			env.Vars["result"] = tv
		}
		c2.observedFacts(name, rt, obs[fmt.Sprintf("result%d", i)], final, &facts, 0)
	}
	_ = initial
	var post string
	func() {
		defer func() {
			if r := recover(); r != nil {
				detail["error"] = fmt.Sprint(r)
			}
		}()
		// unobserved components of the final heap equal the entry heap
		env.Heap = s.Heap
		t, err := env.evalBool(cl.E)
		if err != nil {
			detail["error"] = err.Error()
			return
		}
		post = t
	}()
	if post == "" {
		return "undetermined", detail
	}
	var sb strings.Builder
	sb.WriteString("(set-option :produce-models true)\n(set-logic ALL)\n")
	sb.WriteString(modelPrelude())
	for _, l := range c2.sortCmds {
		sb.WriteString(l + "\n")
	}
	for _, l := range c2.declCmds {
		sb.WriteString(l + "\n")
	}
	for _, l := range c2.smtLines() {
		if !hasQuantifier(l) {
			sb.WriteString(l + "\n")
		}
	}
	for _, l := range c2.strLitFacts() {
		sb.WriteString(l + "\n")
	}
	for _, f := range facts {
		sb.WriteString(f + "\n")
	}
	for _, g := range ghostFacts {
		sb.WriteString(g + "\n")
	}
	qf := filepath.Join(dir, fmt.Sprintf("postcheck_%d.smt2", qi))
	body := sb.String()
	// violated  <=> facts /\ not post is satisfiable and facts /\ post is not
	os.WriteFile(qf, []byte(body+"(push)\n(assert (not "+post+"))\n(check-sat)\n(pop)\n(push)\n(assert "+post+")\n(check-sat)\n(pop)\n"), 0o644)
	cmd := exec.Command("z3-new", "-T:20", "-smt2", qf)
	outb, _ := cmd.CombinedOutput()
	lines := strings.Fields(string(outb))
	detail["query_file"] = qf
	detail["answers"] = lines
	if len(lines) >= 2 {
		switch {
		case lines[0] == "sat" && lines[1] == "unsat":
			return "violated", detail
		case lines[0] == "unsat":
			return "holds", detail
		}
	}
	return "undetermined", detail
}

// ghostAtoms: skolem constants and ground applications of contract-declared uninterpreted functions that occur
// in the failed query.
func (c *Ctx) ghostAtoms(o *Obligation) []string {
	user := map[string]bool{}
	for _, l := range c.smtLines() {
		if strings.HasPrefix(l, "(declare-fun ") {
			f := strings.Fields(strings.TrimPrefix(l, "(declare-fun "))
			if len(f) > 0 {
				user[f[0]] = true
			}
		}
	}
	seen := map[string]bool{}
	var out []string
	add := func(t string) {
		if !seen[t] {
			seen[t] = true
			out = append(out, t)
		}
	}
	for _, d := range c.declCmds {
		f := strings.Fields(strings.TrimSuffix(strings.TrimPrefix(d, "(declare-const "), ")"))
		if len(f) == 2 && strings.HasPrefix(d, "(declare-const ") && strings.HasPrefix(f[0], "sk_") && (f[1] == "Int" || f[1] == "Bool") {
			add(f[0])
		}
	}
	var ground func(n *sx) bool
	ground = func(n *sx) bool {
		if !n.isL {
			a := n.atom
			return c.declSeen[a] || isLiteral(a) || a == "true" || a == "false"
		}
		for i, ch := range n.list {
			if i == 0 && !ch.isL {
				continue
			}
			if !ground(ch) {
				return false
			}
		}
		return true
	}
	var walk func(n *sx)
	walk = func(n *sx) {
		if !n.isL {
			return
		}
		if user[n.head()] && ground(n) && len(out) < 60 {
			add(n.String())
		}
		for _, ch := range n.list {
			walk(ch)
		}
	}
	cmds := append(o.Path.slice(), "(assert "+o.Goal+")")
	for _, l := range cmds {
		if !strings.HasPrefix(l, "(assert ") {
			continue
		}
		hit := false
		for u := range user {
			if strings.Contains(l, "("+u+" ") {
				hit = true
			}
		}
		if !hit {
			continue
		}
		for _, n := range parseSx(l) {
			walk(n)
		}
	}
	return out
}

// ghostDecls re-declares skolem constants used by ghost facts in a fresh context and returns the facts.
func (c *Ctx) ghostDecls(facts []string, c2 *Ctx) []string {
	var out []string
	for _, d := range c.declCmds {
		f := strings.Fields(strings.TrimSuffix(strings.TrimPrefix(d, "(declare-const "), ")"))
		if len(f) == 2 && strings.HasPrefix(d, "(declare-const ") && strings.HasPrefix(f[0], "sk_") && !c2.declSeen[f[0]] {
			for _, g := range facts {
				if strings.Contains(g, f[0]) {
					out = append(out, d)
					break
				}
			}
		}
	}
	return append(out, facts...)
}

// inputsSatisfyRequires: the preconditions, evaluated on the concrete candidate inputs (plus the abstract state),
// must be satisfiable; a definite `unsat` rejects the candidate.
func (c *Ctx) inputsSatisfyRequires(shapes []*Shape, ghostFacts []string, dir string, qi int) (bool, string) {
	c2 := c.cloneDecls()
	s := &State{C: c2, Heap: Heap{}, Cells: map[*Cell]Term{}, CellLocs: map[*Cell]*Loc{}, Ghost: map[string]TV{}}
	c2.declare("WM!0", "Int")
	s.WM = "WM!0"
	fr := c2.newFrame(c.Fn, nil)
	s.Frame = fr
	var facts []string
	for i, p := range c.Fn.Params {
		t := c.paramTerms[i].(string)
		c2.declare(t, c2.sortOf(p.Type()))
		fr.Params = append(fr.Params, t)
		fr.Vals[p] = t
		shapes[i].inputFacts(&facts)
	}
	s.Old = s.snapshot()
	var reqs []string
	var evalErrStr string
	func() {
		defer func() {
			if r := recover(); r != nil {
				evalErrStr = fmt.Sprint(r)
			}
		}()
		for _, r := range c.Spec.Requires {
			env := c2.funcEnv(s, fr, true)
			t, err := env.evalBool(r.E)
			if err != nil {
				evalErrStr = err.Error()
				return
			}
			reqs = append(reqs, "(assert "+t+")")
		}
	}()
	if evalErrStr != "" {
		return true, ""
	}
	var sb strings.Builder
	sb.WriteString("(set-logic ALL)\n")
	sb.WriteString(modelPrelude())
	for _, l := range c2.sortCmds {
		sb.WriteString(l + "\n")
	}
	for _, l := range c2.declCmds {
		sb.WriteString(l + "\n")
	}
	for _, l := range c2.smtLines() {
		if !hasQuantifier(l) {
			sb.WriteString(l + "\n")
		}
	}
	for _, l := range c2.strLitFacts() {
		sb.WriteString(l + "\n")
	}
	for _, f := range facts {
		sb.WriteString(f + "\n")
	}
	for _, g := range ghostFacts {
		sb.WriteString(g + "\n")
	}
	for _, r := range reqs {
		sb.WriteString(r + "\n")
	}
	sb.WriteString("(check-sat)\n")
	qf := filepath.Join(dir, fmt.Sprintf("reqcheck_%d.smt2", qi))
	os.WriteFile(qf, []byte(sb.String()), 0o644)
	r, out, _ := runSolver(solvers[0], qf, 5)
	if r == "unsat" {
		return false, "it violates the function's preconditions"
	}
	if r == "error" {
		return false, "precondition check could not be run: " + firstLines(out, 2)
	}
	return true, ""
}

// cloneDecls: a fresh context that knows every sort and symbol of c (so that terms built for c stay well-formed).
func (c *Ctx) cloneDecls() *Ctx {
	c2 := newCtx(c.P, c.SS, c.Fn, c.Spec, c.Key)
	c2.structNames = c.structNames
	c2.sortCmds = append([]string{}, c.sortCmds...)
	c2.tags = c.tags
	c2.strlits = c.strlits
	c2.declCmds = append([]string{}, c.declCmds...)
	for k, v := range c.declSeen {
		c2.declSeen[k] = v
	}
	for k, v := range c.sortSeen {
		c2.sortSeen[k] = v
	}
	for k, v := range c.compSorts {
		c2.compSorts[k] = v
	}
	c2.n = c.n + 1000
	c2.usesBits = c.usesBits
	return c2
}
