package main

import (
	"golang.org/x/tools/go/ssa"
	"go/types"
	"regexp"
	"os/exec"
	"encoding/json"
	"flag"
	"fmt"
	"os"
	"path/filepath"
	"sort"
	"strconv"
	"strings"
	"time"
)

// Prop is /verif/props/Cxx.json: which functions (and lemmas) decide a property.
type Prop struct {
	ID             string   `json:"id"`
	Title          string   `json:"title"`
	Packages       []string `json:"packages"`
	Functions      []string `json:"functions"`
	ThoroughOnly   []string `json:"thorough_functions"` // verified in the thorough tier only (path-heavy functions)
	Sweep          []string `json:"sweep_functions"`    // no contract of their own: safety sweep under the synthetic contract of sweepSpec
	Lemmas         []string `json:"lemmas"`
	MinObligations int      `json:"min_obligations"`
	Bounded        []struct {
		Name  string `json:"name"`
		Cmd   string `json:"cmd"`
		Bound string `json:"bound"`
	} `json:"bounded"`
	Notes []string `json:"notes"`
}

type OblSummary struct {
	Name     string `json:"name"`
	Func     string `json:"func"`
	Kind     string `json:"kind"`
	Clause   string `json:"clause"`
	Pos      string `json:"pos,omitempty"`
	Queries  int    `json:"queries"`
	Result   string `json:"result"`
	Solver   string `json:"solver"`
	Ms       int64  `json:"ms"`
	failed   []*Obligation
	ctx      *Ctx
}

type Finding struct {
	Kind       string // finding | fixed
	Property   string
	Obligation string
	What       string
	Raw        string
}

func loadFindings(path string) []Finding {
	data, err := os.ReadFile(path)
	if err != nil {
		return nil
	}
	var out []Finding
	for _, l := range strings.Split(string(data), "\n") {
		l = strings.TrimSpace(l)
		if l == "" || strings.HasPrefix(l, "#") {
			continue
		}
		f := Finding{Raw: l}
		switch {
		case strings.HasPrefix(l, "finding:"):
			f.Kind = "finding"
		case strings.HasPrefix(l, "fixed:"):
			f.Kind = "fixed"
		default:
			continue
		}
		for _, w := range strings.Fields(l) {
			if strings.HasPrefix(w, "property=") {
				f.Property = strings.TrimPrefix(w, "property=")
			}
			if strings.HasPrefix(w, "obligation=") {
				f.Obligation = strings.TrimPrefix(w, "obligation=")
			}
		}
		if j := strings.Index(l, "what="); j >= 0 {
			f.What = l[j+5:]
		}
		out = append(out, f)
	}
	return out
}

func cmdCheck(args []string) int {
	fs := flag.NewFlagSet("check", flag.ExitOnError)
	pid := fs.String("p", "", "property id")
	tier := fs.String("tier", "quick", "quick|thorough")
	fs.Parse(args)
	t0 := time.Now()
	vd := verifDir()
	seed := 0
	if v := os.Getenv("VERIF_SEED"); v != "" {
		seed, _ = strconv.Atoi(v)
	}
	if t := os.Getenv("VERIF_TIER"); t != "" && *tier == "" {
		*tier = t
	}
	undecided := func(reason string) int {
		fmt.Printf("UNDECIDED property=%s reason=%s\n", *pid, reason)
		return 2
	}
	var prop Prop
	data, err := os.ReadFile(filepath.Join(vd, "props", *pid+".json"))
	if err != nil {
		return undecided("no property file: " + err.Error())
	}
	if err := json.Unmarshal(data, &prop); err != nil {
		return undecided("bad property file: " + err.Error())
	}
	P, err := loadProgram(repoDir(), prop.Packages)
	if err != nil {
		return undecided("cannot load /repo: " + strings.ReplaceAll(err.Error(), "\n", " "))
	}
	ss, err := loadSpecs(repoDir(), vd)
	if err != nil {
		return undecided("contract files: " + err.Error())
	}
	secs := 10
	all := false
	if *tier == "thorough" {
		secs, all = 60, true
	}
	work, _ := os.MkdirTemp("", "vcgo-"+*pid)
	defer os.RemoveAll(work)

	var ctxs []*Ctx
	var undec []string
	fnList := append([]string{}, prop.Functions...)
	if *tier == "thorough" {
		fnList = append(fnList, prop.ThoroughOnly...)
	}
	for _, key := range fnList {
		f := P.Funcs[key]
		if f == nil {
			undec = append(undec, "function under contract not found: "+key)
			continue
		}
		sp := ss.specFor(f)
		if sp == nil {
			undec = append(undec, "no contract for "+key)
			continue
		}
		c := newCtx(P, ss, f, sp, key)
		if err := c.verify(); err != nil {
			undec = append(undec, err.Error())
			continue
		}
		for _, u := range c.Undecided {
			undec = append(undec, key+": "+u)
		}
		ctxs = append(ctxs, c)
	}
	// zero-annotation safety sweep: functions without a contract of their own, checked for panics (index, slice, nil,
	// explicit panic, division) under the synthetic contract "pointer receiver and pointer parameters are not nil";
	// loops are cut with the invariant `true`
	for _, key := range prop.Sweep {
		f := P.Funcs[key]
		if f == nil {
			undec = append(undec, "function under contract not found: "+key)
			continue
		}
		if ss.specFor(f) != nil {
			undec = append(undec, "sweep function has a contract of its own: "+key)
			continue
		}
		c := newCtx(P, ss, f, sweepSpec(f), key)
		c.assume("A-SWEEP: " + key + " has no contract of its own; it is checked for panics only, assuming that its pointer receiver and pointer parameters are not nil")
		if err := c.verify(); err != nil {
			undec = append(undec, err.Error())
			continue
		}
		for _, u := range c.Undecided {
			undec = append(undec, key+": "+u)
		}
		ctxs = append(ctxs, c)
	}
	for _, ln := range prop.Lemmas {
		c, err := lemmaCtx(P, ss, ln)
		if err != nil {
			undec = append(undec, err.Error())
			continue
		}
		ctxs = append(ctxs, c)
	}
	// discharge everything with one worker pool
	tSolve := time.Now()
	budget := 25 * time.Minute
	if *tier == "thorough" {
		budget = 3 * time.Hour
	}
	dischargeAll(ctxs, solveOpts{secs: secs, workDir: work, workers: 16, all: all, deadline: time.Now().Add(budget)})
	solveWall := time.Since(tSolve)

	// group queries into obligations
	byName := map[string]*OblSummary{}
	var order []string
	bySolver := map[string]int{}
	var totalMs int64
	nQueries := 0
	assumptions := map[string]bool{}
	unmodelled := map[string]bool{}
	var notes []string
	var funcs []string
	for _, c := range ctxs {
		funcs = append(funcs, c.Key)
		for a := range c.Assumptions {
			assumptions[a] = true
		}
		for u := range c.Unmodelled {
			unmodelled[c.Key+": "+u] = true
		}
		for _, n := range c.Notes {
			notes = append(notes, c.Key+": "+n)
		}
		for _, o := range c.Obls {
			if v := os.Getenv("VCGO_SLOW"); v != "" && !o.ExpectSat {
				if th, _ := strconv.Atoi(v); int(o.Ms) >= th {
					fmt.Fprintf(os.Stderr, "SLOW %6dms %-14s %s\n", o.Ms, o.Solver, o.Name)
				}
			}
			nQueries++
			totalMs += o.Ms
			s := byName[o.Name]
			if s == nil {
				s = &OblSummary{Name: o.Name, Func: o.Func, Kind: o.Kind, Clause: o.Desc, Pos: o.Pos, Result: "discharged", ctx: c}
				byName[o.Name] = s
				order = append(order, o.Name)
			}
			s.Queries++
			s.Ms += o.Ms
			if o.Kind == "reach" {
				// reachability: one feasible path is enough
				if s.Queries == 1 {
					s.Result = "failed"
				}
				if o.ok() {
					s.Result = "discharged"
					s.failed = nil
					if s.Solver == "" {
						s.Solver = o.Solver
					}
				} else if s.Result == "failed" {
					s.failed = append(s.failed, o)
				}
				continue
			}
			if o.ok() {
				if s.Solver == "" {
					s.Solver = o.Solver
				}
				bySolver[o.Solver]++
			} else {
				s.Result = "failed"
				s.failed = append(s.failed, o)
			}
		}
	}
	sort.Strings(funcs)
	findings := loadFindings(filepath.Join(vd, "KNOWN_FINDINGS.txt"))
	violations := 0
	discharged := 0
	var failedNames []string
	var vacuity []string
	var known []string
	// a failed precondition is assumed afterwards, which makes the rest of that path contradictory: vacuity
	// failures of a function that has other failed obligations are consequences, not separate failures
	otherFail := map[string]bool{}
	for _, n := range order {
		if s := byName[n]; s.Result != "discharged" && s.Kind != "vac" && s.Kind != "reach" {
			otherFail[s.Func] = true
		}
	}
	for _, n := range order {
		s := byName[n]
		if s.Result != "discharged" && (s.Kind == "vac" || s.Kind == "reach") && otherFail[s.Func] {
			s.Result = "discharged"
			s.Solver = "n/a (path already failed)"
		}
		if s.Result == "discharged" {
			discharged++
			continue
		}
		if s.Kind == "vac" {
			vacuity = append(vacuity, n)
		}
		// known finding?
		isKnown := false
		for _, f := range findings {
			if f.Kind == "finding" && f.Property == prop.ID && f.Obligation == n {
				fmt.Printf("KNOWN-FINDING: property=%s %s (%s)\n", prop.ID, f.What, n)
				known = append(known, n)
				isKnown = true
			}
		}
		if isKnown {
			continue
		}
		failedNames = append(failedNames, n)
		violations++
		rp := replayObligation(vd, prop.ID, s, secs)
		line := fmt.Sprintf("VIOLATION property=%s replay=%s", prop.ID, rp.Path)
		if !rp.Reproduced {
			line += " no-failing-input-found"
		}
		fmt.Println(line)
		fmt.Printf("  obligation %s [%s] %s\n  clause: %s\n", n, s.Pos, rp.Verdict, s.Clause)
	}
	// A contract that can no longer be bound to the code (a field, local, function or callee it names is gone) means the
	// obligations it stands for cannot be generated any more: reported as a violation of the named contract (without a
	// failing input), not as an undecided check - the proof that held on the unchanged tree does not hold here.
	{
		var rest []string
		bindRe := regexp.MustCompile(`has no field|unknown identifier|unknown function|function under contract not found|unknown type|no contract for|not a struct|field .* not found`)
		for _, u := range undec {
			if !bindRe.MatchString(u) {
				rest = append(rest, u)
				continue
			}
			violations++
			name := "contract-bind"
			rp := filepath.Join(outDir(), "replays", prop.ID, sanitize(fmt.Sprintf("contract_bind_%d", violations)), "replay.json")
			os.MkdirAll(filepath.Dir(rp), 0o755)
			js, _ := json.MarshalIndent(map[string]interface{}{"property": prop.ID, "obligation": name, "verdict": "the contract cannot be bound to the current code; no failing input", "verifier_output": u}, "", " ")
			os.WriteFile(rp, js, 0o644)
			failedNames = append(failedNames, name+": "+u)
			fmt.Printf("VIOLATION property=%s replay=%s no-failing-input-found\n  obligation %s: %s\n", prop.ID, rp, name, strings.ReplaceAll(u, "\n", " "))
		}
		undec = rest
	}
	nObl := len(order)
	// guards against vacuity
	if nObl == 0 || (prop.MinObligations > 0 && nObl < prop.MinObligations*8/10) {
		undec = append(undec, fmt.Sprintf("only %d obligations generated (expected about %d)", nObl, prop.MinObligations))
	}
	// bounded stand-ins
	type bres struct {
		Name, Bound, Result string
		Cases               int
	}
	var bounded []map[string]interface{}
	for _, b := range prop.Bounded {
		res, cases, out := runBounded(vd, b.Cmd, *tier, seed)
		bounded = append(bounded, map[string]interface{}{"function": b.Name, "bound": b.Bound, "result": res, "cases": cases, "labelled": "bounded, not counted as proved"})
		if res == "violation" {
			violations++
			rp := filepath.Join(outDir(), "replays", prop.ID, sanitize(b.Name)+".bounded.txt")
			os.MkdirAll(filepath.Dir(rp), 0o755)
			os.WriteFile(rp, []byte(out), 0o644)
			fmt.Printf("VIOLATION property=%s replay=%s\n  bounded check of %s found a failing input\n", prop.ID, rp, b.Name)
		} else if res != "ok" {
			undec = append(undec, "bounded check "+b.Name+": "+firstLines(out, 3))
		}
	}

	// evidence
	var samples []map[string]interface{}
	for i, n := range order {
		if i%maxInt(1, len(order)/6) == 0 && len(samples) < 8 {
			s := byName[n]
			samples = append(samples, map[string]interface{}{"obligation": s.Name, "kind": s.Kind, "clause": s.Clause, "pos": s.Pos, "queries": s.Queries, "result": s.Result, "solver": s.Solver, "ms": s.Ms})
		}
	}
	var slowest []map[string]interface{}
	var all2 []*OblSummary
	for _, n := range order {
		all2 = append(all2, byName[n])
	}
	sort.Slice(all2, func(i, j int) bool { return all2[i].Ms > all2[j].Ms })
	for i := 0; i < len(all2) && i < 5; i++ {
		slowest = append(slowest, map[string]interface{}{"obligation": all2[i].Name, "ms": all2[i].Ms})
	}
	var asl []string
	for a := range assumptions {
		asl = append(asl, a)
	}
	sort.Strings(asl)
	var unl []string
	for u := range unmodelled {
		unl = append(unl, u)
	}
	sort.Strings(unl)
	trusted := trustedBase(asl)
	ev := map[string]interface{}{
		"property_id": prop.ID,
		"tier":        *tier,
		"seed":        seed,
		"level":       "proof",
		"wall_s":      time.Since(t0).Seconds(),
		"violations":  violations,
		"assumptions": asl,
		"coverage": map[string]interface{}{
			"obligations":              nObl - len(known) - len(failedNames),
			"discharged":               discharged,
			"obligations_generated":    nObl,
			"discharged_by_solver":     discharged,
			"known_findings":           known,
			"failed":                   failedNames,
			"queries":                  nQueries,
			"checker_cmd":              fmt.Sprintf("bin/vcgo check -p %s -tier %s  (VC generator over go/ssa of /repo's working tree; SMT portfolio z3-new 5.1.0, cvc5 1.0.3, z3 4.8.12; %ds per query)", prop.ID, *tier, secs),
			"trusted_base":             trusted,
			"functions_under_contract": funcs,
			"safety_sweep_functions":   prop.Sweep,
			"safety_sweep_note":        "functions listed under safety_sweep_functions have no contract of their own: they are checked for panics only (index, slice, nil, explicit panic), with loops cut at the invariant `true`, assuming non-nil pointer receiver and pointer parameters; they also appear in functions_under_contract",
			"by_solver":                bySolver,
			"solver_ms_total":          totalMs,
			"solver_wall_s":            solveWall.Seconds(),
			"slowest":                  slowest,
			"vacuity_failures":         vacuity,
			"bounded_standins":         bounded,
			"undecided":                undec,
			"unmodelled":               unl,
			"notes":                    notes,
			"samples":                  samples,
			"counting_rule":            "obligations = generated obligations minus those listed as known findings (reported under known_findings) and minus failed ones (reported under failed, with a VIOLATION line each); discharged = obligations for which every query is unsat",
			"explanation":              "every obligation is one or more SMT queries (one per path through the function's SSA); an obligation counts as discharged only if every query is unsat",
		},
	}
	os.MkdirAll(filepath.Join(outDir(), "evidence"), 0o755)
	out, _ := json.MarshalIndent(ev, "", " ")
	os.WriteFile(filepath.Join(outDir(), "evidence", prop.ID+".json"), out, 0o644)

	fmt.Printf("%s: %d obligations (%d queries) over %d functions: %d discharged, %d known findings, %d failed; solver wall %.1fs; total %.1fs\n",
		prop.ID, nObl, nQueries, len(funcs), discharged, len(known), len(failedNames), solveWall.Seconds(), time.Since(t0).Seconds())
	if violations > 0 {
		return 1
	}
	if len(undec) > 0 {
		for _, u := range undec {
			fmt.Printf("UNDECIDED property=%s reason=%s\n", prop.ID, strings.ReplaceAll(u, "\n", " "))
		}
		return 2
	}
	return 0
}

func maxInt(a, b int) int {
	if a > b {
		return a
	}
	return b
}

func trustedBase(assumptions []string) []string {
	set := map[string]bool{
		"vcgo itself: the SSA→SMT translation of /verif/tool (memory model, frame rule, loop cut)": true,
		"golang.org/x/tools/go/ssa v0.29.0 (NaiveForm) as the meaning of the Go source":            true,
		"SMT solvers: an `unsat` answer of z3 5.1.0 / cvc5 1.0.3 / z3 4.8.12":                      true,
	}
	for _, a := range assumptions {
		switch {
		case strings.HasPrefix(a, "A-LIB"), strings.HasPrefix(a, "trusted contract"), strings.HasPrefix(a, "axiom "), strings.HasPrefix(a, "assume "):
			set[a] = true
		}
	}
	var out []string
	for k := range set {
		out = append(out, k)
	}
	sort.Strings(out)
	return out
}

func dischargeAll(ctxs []*Ctx, opts solveOpts) {
	os.MkdirAll(opts.workDir, 0o755)
	type job struct {
		c *Ctx
		i int
		o *Obligation
	}
	jobs := make(chan job, 64)
	done := make(chan struct{})
	for w := 0; w < opts.workers; w++ {
		go func() {
			for j := range jobs {
				j.c.solveOne(j.i, j.o, opts)
			}
			done <- struct{}{}
		}()
	}
	n := 0
	for ci, c := range ctxs {
		for i, o := range c.Obls {
			jobs <- job{c, ci*100000 + i, o}
			n++
		}
	}
	close(jobs)
	for w := 0; w < opts.workers; w++ {
		<-done
	}
}

// lemmaCtx builds a pseudo-function context whose only obligation is the lemma itself, proved from the
// axioms/lemmas it `use`s.
func lemmaCtx(P *Program, ss *SpecSet, name string) (*Ctx, error) {
	ax, ok := ss.Axioms[name]
	if !ok || !ax.IsLemma {
		return nil, fmt.Errorf("no lemma %q", name)
	}
	c := newCtx(P, ss, nil, &FuncSpec{Loops: map[int]*LoopSpec{}, NoSafety: map[string]bool{}, CallSpecs: map[string]string{}}, "lemma::"+name)
	s := &State{C: c, Heap: Heap{}, Cells: map[*Cell]Term{}, CellLocs: map[*Cell]*Loc{}, Ghost: map[string]TV{}}
	c.declare("WM!0", "Int")
	s.WM = "WM!0"
	for _, u := range ax.Uses {
		if err := s.useAxiom(u); err != nil {
			return nil, err
		}
	}
	env := &SpecEnv{S: s, C: c, Heap: s.Heap, Cells: s.Cells, Vars: map[string]TV{}, Pkg: c.findPackage(ax.Pkg, nil), Ghost: map[string]TV{}}
	var err error
	func() {
		defer func() {
			if r := recover(); r != nil {
				err = fmt.Errorf("lemma %s: %v", name, r)
			}
		}()
		s.obligeExpr("lemma", ax.Src, fmt.Sprintf("%s:%d", ax.File, ax.Line), env, ax.E, "lemma "+name)
	}()
	return c, err
}

// runBounded runs a bounded stand-in: cmd = "<package dir relative to the repo>|<test file under /verif/bounded>|<TestName>".
// The test file is injected with `go test -overlay`; it prints BOUNDED-CASES <n> and, on a failing input, BOUNDED-FAIL <text>.
func runBounded(vd, cmd, tier string, seed int) (res string, cases int, out string) {
	parts := strings.Split(cmd, "|")
	if len(parts) != 3 {
		return "error", 0, "bad bounded command " + cmd
	}
	pkgDir := filepath.Join(repoDir(), parts[0])
	src := filepath.Join(vd, "bounded", parts[1])
	tmp, _ := os.MkdirTemp("", "vcgo-bounded")
	defer os.RemoveAll(tmp)
	ov := map[string]interface{}{"Replace": map[string]string{filepath.Join(pkgDir, "zz_vcgo_bounded_test.go"): src}}
	ovb, _ := json.Marshal(ov)
	ovFile := filepath.Join(tmp, "overlay.json")
	os.WriteFile(ovFile, ovb, 0o644)
	c := exec.Command("go", "test", "-overlay", ovFile, "-vet=off", "-count=1", "-timeout", "600s", "-v", "-run", "^"+parts[2]+"$", ".")
	c.Dir = pkgDir
	c.Env = append(os.Environ(), "VCGO_TIER="+tier, fmt.Sprintf("VCGO_SEED=%d", seed))
	ob, _ := c.CombinedOutput()
	out = string(ob)
	for _, l := range strings.Split(out, "\n") {
		if strings.HasPrefix(l, "BOUNDED-CASES ") {
			fmt.Sscanf(strings.TrimPrefix(l, "BOUNDED-CASES "), "%d", &cases)
		}
	}
	var fails []string
	for _, l := range strings.Split(out, "\n") {
		if strings.HasPrefix(l, "BOUNDED-FAIL") {
			fails = append(fails, l)
		}
	}
	if len(fails) > 0 {
		return "violation", cases, strings.Join(fails, "\n") + "\n\nreproduce: cd " + pkgDir + " && go test -overlay <overlay replacing zz_vcgo_bounded_test.go by " + src + "> -run '^" + parts[2] + "$' .\n"
	}
	if cases == 0 || !strings.Contains(out, "\nok") && !strings.Contains(out, "PASS") {
		if len(out) > 1500 {
			out = out[len(out)-1500:]
		}
		return "error", cases, out
	}
	return "ok", cases, ""
}

// sweepSpec: the synthetic contract of the zero-annotation safety sweep.
func sweepSpec(f *ssa.Function) *FuncSpec {
	sp := &FuncSpec{Loops: map[int]*LoopSpec{}, NoSafety: map[string]bool{"frame": true}, CallSpecs: map[string]string{}, Modifies: []string{"heap"}, HasBody: true}
	var conj []string
	for _, p := range f.Params {
		if _, ok := p.Type().Underlying().(*types.Pointer); ok && p.Name() != "" && p.Name() != "_" {
			conj = append(conj, p.Name()+" != nil")
		}
	}
	if len(conj) > 0 {
		src := strings.Join(conj, " && ")
		if e, err := parseSpecExpr(src); err == nil {
			sp.Requires = append(sp.Requires, &Clause{Kind: "requires", Src: src, E: e, File: "(sweep)", Line: 0})
		}
	}
	return sp
}
