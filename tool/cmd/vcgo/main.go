package main

import (
	"flag"
	"fmt"
	"os"
	"path/filepath"
	"sort"
	"strings"
)

func usage() {
	fmt.Fprintln(os.Stderr, `usage:
  vcgo dump    -pkg ./util -func '(*Bitmask).HasBitsIn'
  vcgo verify  -pkg ./util[,./seq] -func 'util::(*Bitmask).HasBitsIn'[,...] [-v] [-secs 10] [-keep]
  vcgo check   -p C14 -tier quick|thorough`)
	os.Exit(2)
}

const goToolchainBin = "/root/go/pkg/mod/golang.org/toolchain@v0.0.1-go1.24.0.linux-amd64/bin"

func setupEnv() {
	if _, err := os.Stat(goToolchainBin); err == nil {
		os.Setenv("PATH", goToolchainBin+":"+os.Getenv("PATH"))
	}
	os.Setenv("GOTOOLCHAIN", "local")
	os.Setenv("GOFLAGS", "-mod=mod")
	os.Setenv("GOPROXY", "off")
	os.Setenv("GOSUMDB", "off")
	os.Setenv("CGO_ENABLED", "0")
}

func main() {
	setupEnv()
	if len(os.Args) < 2 {
		usage()
	}
	switch os.Args[1] {
	case "dump":
		cmdDump(os.Args[2:])
	case "verify":
		cmdVerify(os.Args[2:])
	case "check":
		os.Exit(cmdCheck(os.Args[2:]))
	default:
		usage()
	}
}

func repoDir() string {
	if d := os.Getenv("VERIF_REPO"); d != "" {
		return d
	}
	return "/repo"
}

func verifDir() string {
	if d := os.Getenv("VERIF_DIR"); d != "" {
		return d
	}
	return "/verif"
}

// outDir: where evidence and replay files go. Runs against a scratch copy of the repository (VERIF_REPO set) must not
// overwrite the evidence of /repo itself: they write below the scratch copy.
func outDir() string {
	if d := os.Getenv("VERIF_REPO"); d != "" && d != "/repo" {
		return filepath.Join(d, ".verif-out")
	}
	return verifDir()
}

func cmdDump(args []string) {
	fs := flag.NewFlagSet("dump", flag.ExitOnError)
	pkg := fs.String("pkg", "", "package patterns (comma separated)")
	fn := fs.String("func", "", "function key substring")
	fs.Parse(args)
	P, err := loadProgram(repoDir(), strings.Split(*pkg, ","))
	if err != nil {
		fmt.Fprintln(os.Stderr, err)
		os.Exit(2)
	}
	for _, k := range P.funcNamesLike(*fn) {
		fmt.Println("==", k)
		P.Funcs[k].WriteTo(os.Stdout)
	}
}

// loadSpecs reads every contract file of the repository plus the library specs of /verif/lib.
func loadSpecs(repo, verif string) (*SpecSet, error) {
	ss := newSpecSet()
	var files []string
	filepath.Walk(repo, func(p string, info os.FileInfo, err error) error {
		if err != nil {
			return nil
		}
		if info.IsDir() && (info.Name() == ".git" || info.Name() == "vendor" || info.Name() == "node_modules") {
			return filepath.SkipDir
		}
		if !info.IsDir() && info.Name() == "zz_verif_contracts.go" {
			files = append(files, p)
		}
		return nil
	})
	sort.Strings(files)
	for _, f := range files {
		rel, _ := filepath.Rel(repo, filepath.Dir(f))
		if err := ss.loadSpecFile(f, rel); err != nil {
			return nil, err
		}
	}
	libs, _ := filepath.Glob(filepath.Join(verif, "lib", "*.spec"))
	sort.Strings(libs)
	for _, f := range libs {
		if err := ss.loadSpecFile(f, ""); err != nil {
			return nil, err
		}
	}
	return ss, nil
}

func cmdVerify(args []string) {
	fs := flag.NewFlagSet("verify", flag.ExitOnError)
	pkg := fs.String("pkg", "", "package patterns (comma separated)")
	fn := fs.String("func", "", "function keys (comma separated)")
	verbose := fs.Bool("v", false, "print every obligation")
	secs := fs.Int("secs", 10, "solver timeout per obligation")
	keep := fs.Bool("keep", false, "keep query files")
	dump := fs.String("dump", "", "print the query text of obligations whose name contains this")
	sweep := fs.Bool("sweep", false, "functions without a contract get the synthetic sweep contract (panics only)")
	fs.Parse(args)
	P, err := loadProgram(repoDir(), strings.Split(*pkg, ","))
	if err != nil {
		fmt.Fprintln(os.Stderr, err)
		os.Exit(2)
	}
	ss, err := loadSpecs(repoDir(), verifDir())
	if err != nil {
		fmt.Fprintln(os.Stderr, err)
		os.Exit(2)
	}
	work, _ := os.MkdirTemp("", "vcgo")
	if !*keep {
		defer os.RemoveAll(work)
	} else {
		fmt.Println("queries in", work)
	}
	bad := 0
	for _, key := range strings.Split(*fn, ";") {
		key = strings.TrimSpace(key)
		f := P.Funcs[key]
		if f == nil {
			fmt.Printf("%s: no such function; candidates: %v\n", key, P.funcNamesLike(key[strings.Index(key, "::")+2:]))
			bad++
			continue
		}
		sp := ss.specFor(f)
		if sp == nil && *sweep {
			sp = sweepSpec(f)
		}
		if sp == nil {
			sp = &FuncSpec{Loops: map[int]*LoopSpec{}, NoSafety: map[string]bool{}, CallSpecs: map[string]string{}}
		}
		c := newCtx(P, ss, f, sp, key)
		if err := c.verify(); err != nil {
			fmt.Println("ERROR", err)
			bad++
			continue
		}
		if *dump != "" {
			for _, o := range c.Obls {
				if strings.Contains(o.Name, *dump) {
					fmt.Println(";;;;", o.Name, o.Pos)
					fmt.Println(c.queryText(o, false))
					if os.Getenv("VCGO_DUMP_ALL") == "" {
						break
					}
				}
			}
			continue
		}
		c.discharge(solveOpts{secs: *secs, workDir: work, workers: 16})
		nOK := 0
		reachOK := map[string]bool{}
		for _, o := range c.Obls {
			if o.Kind == "reach" && o.ok() {
				reachOK[o.Name] = true
			}
		}
		for _, o := range c.Obls {
			if o.Kind == "reach" && reachOK[o.Name] {
				nOK++
				continue
			}
			if o.ok() {
				nOK++
			}
			if *verbose || !o.ok() {
				fmt.Printf("  %-8s %-7s %5dms %s  [%s] %s\n", o.Result, o.Solver, o.Ms, o.Name, o.Pos, o.Desc)
				if !o.ok() && o.Result == "error" {
					fmt.Println("     ", o.Output)
				}
				if !o.ok() && o.Model != "" && *verbose {
					fmt.Println(indent(o.Model, "      "))
				}
			}
		}
		fmt.Printf("%s: %d/%d queries ok, %d paths\n", key, nOK, len(c.Obls), c.paths)
		for _, u := range c.Undecided {
			fmt.Println("  UNDECIDED:", u)
			bad++
		}
		for u := range c.Unmodelled {
			fmt.Println("  unmodelled:", u)
		}
		for _, n := range c.Notes {
			fmt.Println("  note:", n)
		}
		if *verbose {
			var as []string
			for a := range c.Assumptions {
				as = append(as, a)
			}
			sort.Strings(as)
			for _, a := range as {
				fmt.Println("  assumes:", a)
			}
		}
		if nOK != len(c.Obls) {
			bad++
		}
	}
	if bad > 0 {
		os.Exit(1)
	}
}

func indent(s, p string) string {
	return p + strings.ReplaceAll(strings.TrimSpace(s), "\n", "\n"+p)
}

