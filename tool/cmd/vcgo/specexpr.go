package main

import (
	"fmt"
	"go/constant"
	"go/types"
	"math/big"
	"regexp"
	"strconv"
	"strings"
)

// TV is a typed spec value.
type TV struct {
	T    Term
	Ty   types.Type // Go type or nil for a pure spec sort
	Sort string     // SMT sort (always set for terms)
	Loc  *Loc       // engine-level pointer (then T may be empty)
	Tup  []TV
	ElemTy types.Type // for elems(s): the element type of the Go slice
}

type SpecEnv struct {
	S      *State
	C      *Ctx
	Heap   Heap
	Cells  map[*Cell]Term
	Vars   map[string]TV
	Old    *SpecEnv // environment used for old(...)
	Locals func(name string) *Loc
	Pkg    *types.Package
	Ghost  map[string]TV
	Ghost0 map[string]TV // values of the ghost variables in the pre-state (function entry / before the call): pre(g)
	WM0    Term
	LoopWM Term // watermark at the entry of the loop whose invariant is being evaluated
	depth  int
	// side conditions collected while evaluating (e.g. definedness); currently unused
}

func (e *SpecEnv) child() *SpecEnv {
	n := *e
	n.Vars = make(map[string]TV, len(e.Vars)+2)
	for k, v := range e.Vars {
		n.Vars[k] = v
	}
	return &n
}

type evalErr string

func efail(f string, a ...interface{}) { panic(evalErr(fmt.Sprintf(f, a...))) }

func (c *Ctx) mkTV(t Term, ty types.Type) TV { return TV{T: t, Ty: ty, Sort: c.sortOf(ty)} }

func specTV(t Term, sort string) TV { return TV{T: t, Sort: sort} }

var tyInt = types.Typ[types.Int]

// evalSpec evaluates a boolean/other spec expression to an SMT term.
func (e *SpecEnv) evalBool(x Expr) (t Term, err error) {
	defer func() {
		if r := recover(); r != nil {
			if s, ok := r.(evalErr); ok {
				err = fmt.Errorf("%s", string(s))
				return
			}
			panic(r)
		}
	}()
	v := e.eval(x)
	if v.Sort != "Bool" {
		efail("expected boolean expression, got sort %s", v.Sort)
	}
	return v.T, nil
}

func (e *SpecEnv) evalAny(x Expr) (v TV, err error) {
	defer func() {
		if r := recover(); r != nil {
			if s, ok := r.(evalErr); ok {
				err = fmt.Errorf("%s", string(s))
				return
			}
			panic(r)
		}
	}()
	return e.eval(x), nil
}

func (e *SpecEnv) resolveType(text string) (types.Type, string) {
	text = strings.TrimSpace(text)
	switch text {
	case "Int":
		return nil, "Int"
	case "Bool":
		return nil, "Bool"
	case "Real":
		return nil, "Real"
	case "Str":
		return nil, "Str"
	case "Slice":
		return nil, "Slice"
	case "Iface":
		return nil, "Iface"
	}
	if strings.HasPrefix(text, "set[") {
		_, s := e.resolveType(text[4 : len(text)-1])
		return nil, "(Array " + s + " Bool)"
	}
	if strings.HasPrefix(text, "seq[") {
		_, s := e.resolveType(text[4 : len(text)-1])
		return nil, "(Array Int " + s + ")"
	}
	if strings.HasPrefix(text, "map[") {
		k := matchBracket(text, 3)
		_, ks := e.resolveType(text[4:k])
		_, vs := e.resolveType(text[k+1:])
		return nil, "(Array " + ks + " " + vs + ")"
	}
	if strings.HasPrefix(text, "*") {
		t, _ := e.resolveType(text[1:])
		if t == nil {
			efail("cannot take pointer to spec type %s", text)
		}
		pt := types.NewPointer(t)
		return pt, "Int"
	}
	if strings.HasPrefix(text, "[]") {
		t, _ := e.resolveType(text[2:])
		if t == nil {
			efail("slice of spec type %s", text)
		}
		return types.NewSlice(t), "Slice"
	}
	if strings.HasPrefix(text, "[") {
		k := strings.Index(text, "]")
		n, _ := strconv.Atoi(text[1:k])
		t, _ := e.resolveType(text[k+1:])
		at := types.NewArray(t, int64(n))
		return at, e.C.sortOf(at)
	}
	for _, b := range types.Typ {
		if b.Name() == text {
			return b, e.C.sortOf(b)
		}
	}
	switch text {
	case "byte":
		return types.Typ[types.Uint8], "Int"
	case "rune":
		return types.Typ[types.Int32], "Int"
	case "error":
		t := types.Universe.Lookup("error").Type()
		return t, "Iface"
	case "any":
		t := types.Universe.Lookup("any").Type()
		return t, "Iface"
	}
	pkg := e.Pkg
	name := text
	if j := strings.LastIndex(text, "."); j >= 0 {
		pn := text[:j]
		name = text[j+1:]
		pkg = e.C.findPackage(pn, e.Pkg)
		if pkg == nil {
			efail("unknown package %q in type %q", pn, text)
		}
	}
	if pkg != nil {
		if o := pkg.Scope().Lookup(name); o != nil {
			if tn, ok := o.(*types.TypeName); ok {
				return tn.Type(), e.C.sortOf(tn.Type())
			}
		}
	}
	efail("unknown type %q", text)
	return nil, ""
}

func matchBracket(s string, open int) int {
	d := 0
	for i := open; i < len(s); i++ {
		switch s[i] {
		case '[':
			d++
		case ']':
			d--
			if d == 0 {
				return i
			}
		}
	}
	return -1
}

func (c *Ctx) findPackage(name string, from *types.Package) *types.Package {
	if from != nil {
		if from.Name() == name {
			return from
		}
		for _, imp := range from.Imports() {
			if imp.Name() == name {
				return imp
			}
		}
	}
	// by short path or name among loaded packages
	for path, sp := range c.P.Pkgs {
		if shortPkg(path) == name || sp.Pkg.Name() == name && strings.HasPrefix(path, modPath) {
			return sp.Pkg
		}
	}
	for _, sp := range c.P.Pkgs {
		if sp.Pkg.Name() == name {
			return sp.Pkg
		}
	}
	return nil
}

func (e *SpecEnv) lookup(name string) (TV, bool) {
	if v, ok := e.Vars[name]; ok {
		return v, true
	}
	if e.Locals != nil {
		if l := e.Locals(name); l != nil {
			t, ty := e.S.loadIn(e.Heap, e.Cells, l)
			return e.C.mkTV(t, ty), true
		}
	}
	if v, ok := e.Ghost[name]; ok {
		return v, true
	}
	// package-level constant or variable
	if e.Pkg != nil {
		if o := e.Pkg.Scope().Lookup(name); o != nil {
			return e.objValue(o)
		}
	}
	return TV{}, false
}

func (e *SpecEnv) objValue(o types.Object) (TV, bool) {
	switch o := o.(type) {
	case *types.Const:
		return e.constValue(o.Val(), o.Type()), true
	case *types.Var:
		// global
		if sp := e.C.P.Pkgs[o.Pkg().Path()]; sp != nil {
			if g := sp.Var(o.Name()); g != nil {
				l := &Loc{Kind: LocGlobal, Glob: g, Ty: o.Type()}
				t, ty := e.S.loadIn(e.Heap, e.Cells, l)
				return e.C.mkTV(t, ty), true
			}
		}
	}
	return TV{}, false
}

func (e *SpecEnv) constValue(v constant.Value, t types.Type) TV {
	switch v.Kind() {
	case constant.Bool:
		return TV{T: fmt.Sprint(constant.BoolVal(v)), Ty: t, Sort: "Bool"}
	case constant.Int:
		b, _ := new(big.Int).SetString(v.ExactString(), 10)
		if bt, ok := e.C.under(t).(*types.Basic); ok && bt.Info()&types.IsFloat != 0 {
			return TV{T: smtReal(b), Ty: t, Sort: "Real"}
		}
		return TV{T: smtInt(b), Ty: t, Sort: "Int"}
	case constant.String:
		return TV{T: e.C.strLit(constant.StringVal(v)), Ty: t, Sort: "Str"}
	case constant.Float:
		r, _ := new(big.Rat).SetString(v.ExactString())
		if r != nil {
			s := fmt.Sprintf("(/ %s.0 %s.0)", new(big.Int).Abs(r.Num()).String(), r.Denom().String())
			if r.Sign() < 0 {
				s = "(- " + s + ")"
			}
			return TV{T: s, Ty: t, Sort: "Real"}
		}
	}
	efail("unsupported constant kind")
	return TV{}
}

func smtReal(b *big.Int) string {
	if b.Sign() < 0 {
		return "(- " + new(big.Int).Neg(b).String() + ".0)"
	}
	return b.String() + ".0"
}

func parseIntLit(s string) *big.Int {
	b := new(big.Int)
	if _, ok := b.SetString(s, 0); ok {
		return b
	}
	return nil
}

func (e *SpecEnv) eval(x Expr) TV {
	c := e.C
	switch x := x.(type) {
	case *EInt:
		b := parseIntLit(x.V)
		if b == nil {
			efail("bad integer literal %q", x.V)
		}
		return specTV(smtInt(b), "Int")
	case *EBool:
		return specTV(fmt.Sprint(x.V), "Bool")
	case *EStr:
		return TV{T: c.strLit(x.V), Ty: types.Typ[types.String], Sort: "Str"}
	case *ENil:
		return TV{T: "nil", Sort: "nil"}
	case *EIdent:
		v, ok := e.lookup(x.Name)
		if !ok {
			efail("unknown identifier %q", x.Name)
		}
		return v
	case *EOld:
		if e.Old == nil {
			efail("old() not available here")
		}
		// old(g) of a ghost variable named directly is its pre-state value (the same as pre(g)); ghost variables used
		// inside a larger old(...) expression - typically as indices - keep their current value
		if id, ok := x.X.(*EIdent); ok {
			if _, isVar := e.Vars[id.Name]; !isVar {
				if _, isGhost := e.Ghost[id.Name]; isGhost {
					if e.Ghost0 != nil {
						if v, ok := e.Ghost0[id.Name]; ok {
							return v
						}
					}
				}
			}
		}
		o := e.Old.child()
		// bound (quantified / let) variables of the current env stay visible inside old()
		for k, v := range e.Vars {
			if _, shadow := e.Old.Vars[k]; !shadow {
				o.Vars[k] = v
			} else if v.Sort != "" && e.isBound(k) {
				o.Vars[k] = v
			}
		}
		return o.eval(x.X)
	case *ELet:
		v := e.eval(x.Val)
		n := e.child()
		n.Vars[x.Name] = v
		return n.eval(x.Body)
	case *EUn:
		if x.Op == "&" {
			if id, ok := x.X.(*EIdent); ok && e.Locals != nil {
				if _, shadow := e.Vars[id.Name]; !shadow {
					if l := e.Locals(id.Name); l != nil && (l.Kind == LocObj || l.Kind == LocBox) && len(l.Path) == 0 {
						return TV{T: l.Ref, Loc: l, Ty: types.NewPointer(l.Ty), Sort: "Int"}
					}
				}
			}
			l, ty := e.addr(x.X)
			return TV{Loc: l, Ty: types.NewPointer(ty), Sort: "Int"}
		}
		v := e.eval(x.X)
		switch x.Op {
		case "!":
			return specTV("(not "+v.T+")", "Bool")
		case "-":
			if v.Sort == "Real" {
				return TV{T: "(- " + v.T + ")", Ty: v.Ty, Sort: "Real"}
			}
			return TV{T: "(- " + v.T + ")", Ty: v.Ty, Sort: "Int"}
		case "*":
			return e.deref(v)
		}
	case *EBin:
		return e.evalBin(x)
	case *ECond:
		cnd := e.eval(x.C)
		a, b := e.eval(x.A), e.eval(x.B)
		a, b = e.unify(a, b)
		return TV{T: fmt.Sprintf("(ite %s %s %s)", cnd.T, a.T, b.T), Ty: a.Ty, Sort: a.Sort}
	case *EQuant:
		if x.Mapof {
			return e.evalMapof(x)
		}
		n := e.child()
		var binds, guards []string
		for _, qv := range x.Vars {
			ty, sort := e.resolveType(qv.Type)
			name := c.fresh("q_" + qv.Name)
			binds = append(binds, fmt.Sprintf("(%s %s)", name, sort))
			n.Vars[qv.Name] = TV{T: name, Ty: ty, Sort: sort}
			n.markBound(qv.Name)
			if ty != nil {
				guards = append(guards, c.wf(name, ty, 0)...)
			}
		}
		body := n.eval(x.Body)
		if body.Sort != "Bool" {
			efail("quantifier body is not boolean")
		}
		pat := ""
		if len(x.Pats) > 0 {
			var ps []string
			for _, pe := range x.Pats {
				pv := n.eval(pe)
				if pv.Loc != nil && pv.T == "" {
					pv = n.locTerm(pv)
				}
				ps = append(ps, pv.T)
			}
			pat = " :pattern (" + strings.Join(ps, " ") + ")"
		}
		g := "true"
		if len(guards) == 1 {
			g = guards[0]
		} else if len(guards) > 1 {
			g = "(and " + strings.Join(guards, " ") + ")"
		}
		if x.Forall {
			if pat != "" {
				if g == "true" {
					return specTV(fmt.Sprintf("(forall (%s) (! %s%s))", strings.Join(binds, " "), body.T, pat), "Bool")
				}
				return specTV(fmt.Sprintf("(forall (%s) (! (=> %s %s)%s))", strings.Join(binds, " "), g, body.T, pat), "Bool")
			}
			if g == "true" {
				return specTV(fmt.Sprintf("(forall (%s) %s)", strings.Join(binds, " "), body.T), "Bool")
			}
			return specTV(fmt.Sprintf("(forall (%s) (=> %s %s))", strings.Join(binds, " "), g, body.T), "Bool")
		}
		if g == "true" {
			return specTV(fmt.Sprintf("(exists (%s) %s)", strings.Join(binds, " "), body.T), "Bool")
		}
		return specTV(fmt.Sprintf("(exists (%s) (and %s %s))", strings.Join(binds, " "), g, body.T), "Bool")
	case *ESel:
		// package-qualified constant / global?
		if id, ok := x.X.(*EIdent); ok {
			if _, isVar := e.lookup(id.Name); !isVar {
				if pkg := c.findPackage(id.Name, e.Pkg); pkg != nil {
					if o := pkg.Scope().Lookup(x.Name); o != nil {
						if v, ok := e.objValue(o); ok {
							return v
						}
					}
					efail("unknown %s.%s", id.Name, x.Name)
				}
			}
		}
		v := e.eval(x.X)
		return e.sel(v, x.Name)
	case *EIndex:
		v := e.eval(x.X)
		i := e.eval(x.I)
		return e.index(v, i)
	case *ESlice:
		v := e.eval(x.X)
		return e.slice(v, x.Lo, x.Hi)
	case *ECall:
		return e.call(x)
	}
	efail("unsupported expression %T", x)
	return TV{}
}

func (e *SpecEnv) markBound(name string) {
	e.Vars["\x00bound:"+name] = TV{}
}
func (e *SpecEnv) isBound(name string) bool {
	_, ok := e.Vars["\x00bound:"+name]
	return ok
}

func (e *SpecEnv) unify(a, b TV) (TV, TV) {
	if a.Sort == "nil" && b.Sort != "nil" {
		a = e.nilOf(b)
	}
	if b.Sort == "nil" && a.Sort != "nil" {
		b = e.nilOf(a)
	}
	if a.Loc != nil && a.T == "" {
		a = e.locTerm(a)
	}
	if b.Loc != nil && b.T == "" {
		b = e.locTerm(b)
	}
	if a.Sort == "Real" && b.Sort == "Int" {
		b = TV{T: "(to_real " + b.T + ")", Sort: "Real", Ty: a.Ty}
	}
	if b.Sort == "Real" && a.Sort == "Int" {
		a = TV{T: "(to_real " + a.T + ")", Sort: "Real", Ty: b.Ty}
	}
	return a, b
}

func (e *SpecEnv) nilOf(like TV) TV {
	switch like.Sort {
	case "Slice":
		return TV{T: "(mk-slice 0 0 0 0)", Ty: like.Ty, Sort: "Slice"}
	case "Iface":
		return TV{T: "(mk-iface 0 0)", Ty: like.Ty, Sort: "Iface"}
	}
	return TV{T: "0", Ty: like.Ty, Sort: "Int"}
}

func (e *SpecEnv) locTerm(v TV) TV {
	if v.T != "" {
		return v
	}
	l := v.Loc
	if l != nil && l.Kind == LocObj && len(l.Path) == 0 {
		return TV{T: l.Ref, Ty: v.Ty, Sort: "Int", Loc: l}
	}
	if l != nil && l.Kind == LocBox && len(l.Path) == 0 {
		return TV{T: l.Ref, Ty: v.Ty, Sort: "Int", Loc: l}
	}
	if l != nil && l.Kind == LocGlobal && len(l.Path) == 0 {
		// the address of a package-level variable: an opaque constant
		n := "gaddr!" + sanitize(l.Glob.Pkg.Pkg.Path()+"."+l.Glob.Name())
		e.C.declare(n, "Int")
		return TV{T: n, Ty: v.Ty, Sort: "Int", Loc: l}
	}
	efail("pointer value has no first-order representation")
	return TV{}
}

func (e *SpecEnv) evalBin(x *EBin) TV {
	switch x.Op {
	case "&&", "||", "==>", "<==>":
		a, b := e.eval(x.X), e.eval(x.Y)
		if a.Sort != "Bool" || b.Sort != "Bool" {
			efail("operator %s needs boolean operands (got %s, %s)", x.Op, a.Sort, b.Sort)
		}
		op := map[string]string{"&&": "and", "||": "or", "==>": "=>", "<==>": "="}[x.Op]
		return specTV(fmt.Sprintf("(%s %s %s)", op, a.T, b.T), "Bool")
	}
	a, b := e.eval(x.X), e.eval(x.Y)
	if x.Op == "in" {
		// element of ghost set / map domain
		if b.Ty != nil {
			if m, ok := e.C.under(b.Ty).(*types.Map); ok {
				dn, _, _, ds, _, _ := e.C.mapComps(m)
				return specTV(fmt.Sprintf("(select (select %s %s) %s)", compIn(e.C, e.Heap, dn, ds), b.T, a.T), "Bool")
			}
		}
		return specTV(fmt.Sprintf("(select %s %s)", b.T, a.T), "Bool")
	}
	if (x.Op == "==" || x.Op == "!=") && (a.Sort == "nil" || b.Sort == "nil") {
		// engine-level (interior) pointers: nil iff their base reference is nil
		p := a
		if a.Sort == "nil" {
			p = b
		}
		if p.Loc != nil && p.T == "" {
			r := "false"
			if p.Loc.Kind != LocLocal && p.Loc.Kind != LocGlobal {
				r = fmt.Sprintf("(= %s 0)", p.Loc.Ref)
			}
			if x.Op == "!=" {
				r = "(not " + r + ")"
			}
			return specTV(r, "Bool")
		}
	}
	a, b = e.unify(a, b)
	switch x.Op {
	case "==":
		if a.Sort == "nil" && b.Sort == "nil" {
			return specTV("true", "Bool")
		}
		if a.Sort == "Slice" && isNilTerm(b.T) {
			return specTV(fmt.Sprintf("(= (s.base %s) 0)", a.T), "Bool")
		}
		if b.Sort == "Slice" && isNilTerm(a.T) {
			return specTV(fmt.Sprintf("(= (s.base %s) 0)", b.T), "Bool")
		}
		if a.Sort == "Iface" && isNilTerm(b.T) {
			return specTV(fmt.Sprintf("(= (i.tag %s) 0)", a.T), "Bool")
		}
		return specTV(fmt.Sprintf("(= %s %s)", a.T, b.T), "Bool")
	case "!=":
		if a.Sort == "Slice" && isNilTerm(b.T) {
			return specTV(fmt.Sprintf("(not (= (s.base %s) 0))", a.T), "Bool")
		}
		if a.Sort == "Iface" && isNilTerm(b.T) {
			return specTV(fmt.Sprintf("(not (= (i.tag %s) 0))", a.T), "Bool")
		}
		return specTV(fmt.Sprintf("(not (= %s %s))", a.T, b.T), "Bool")
	case "<", "<=", ">", ">=":
		if a.Sort == "Str" {
			switch x.Op {
			case "<":
				return specTV(fmt.Sprintf("(gs.lt %s %s)", a.T, b.T), "Bool")
			case "<=":
				return specTV(fmt.Sprintf("(not (gs.lt %s %s))", b.T, a.T), "Bool")
			case ">":
				return specTV(fmt.Sprintf("(gs.lt %s %s)", b.T, a.T), "Bool")
			default:
				return specTV(fmt.Sprintf("(not (gs.lt %s %s))", a.T, b.T), "Bool")
			}
		}
		return specTV(fmt.Sprintf("(%s %s %s)", x.Op, a.T, b.T), "Bool")
	}
	// arithmetic
	rt := a.Ty
	if rt == nil {
		rt = b.Ty
	}
	sort := a.Sort
	res := func(t string) TV { return TV{T: t, Ty: rt, Sort: sort} }
	switch x.Op {
	case "+":
		if a.Sort == "Str" {
			return res(fmt.Sprintf("(gs.cat %s %s)", a.T, b.T))
		}
		return res(fmt.Sprintf("(+ %s %s)", a.T, b.T))
	case "-":
		return res(fmt.Sprintf("(- %s %s)", a.T, b.T))
	case "*":
		return res(fmt.Sprintf("(* %s %s)", a.T, b.T))
	case "/":
		if sort == "Real" {
			return res(fmt.Sprintf("(/ %s %s)", a.T, b.T))
		}
		if !isLiteral(b.T) {
			return res(fmt.Sprintf("(nl.div %s %s)", a.T, b.T))
		}
		if e.nonNegType(a) && e.nonNegType(b) {
			return res(fmt.Sprintf("(div %s %s)", a.T, b.T))
		}
		return res(fmt.Sprintf("(go.div %s %s)", a.T, b.T))
	case "%":
		if !isLiteral(b.T) {
			return res(fmt.Sprintf("(nl.mod %s %s)", a.T, b.T))
		}
		if e.nonNegType(a) && e.nonNegType(b) {
			return res(fmt.Sprintf("(mod %s %s)", a.T, b.T))
		}
		return res(fmt.Sprintf("(go.mod %s %s)", a.T, b.T))
	case "<<":
		return res(fmt.Sprintf("(* %s (pow2 %s))", a.T, b.T))
	case ">>":
		return res(fmt.Sprintf("(div %s (pow2 %s))", a.T, b.T))
	case "&", "|", "^", "&^":
		efail("bitwise operator %s is not available in contracts; use a spec function", x.Op)
	}
	efail("unsupported operator %s", x.Op)
	return TV{}
}

func isNilTerm(t string) bool {
	return t == "0" || t == "(mk-slice 0 0 0 0)" || t == "(mk-iface 0 0)" || t == "nil"
}

func (e *SpecEnv) nonNegType(v TV) bool {
	if v.Ty != nil {
		if b := e.C.basicInt(v.Ty); b != nil && isUnsigned(b) {
			return true
		}
	}
	if _, err := strconv.ParseUint(v.T, 10, 64); err == nil {
		return true
	}
	return false
}

func (e *SpecEnv) deref(v TV) TV {
	c := e.C
	if v.Loc != nil {
		t, ty := e.S.loadIn(e.Heap, e.Cells, v.Loc)
		return c.mkTV(t, ty)
	}
	if v.Ty == nil {
		efail("deref of non-pointer")
	}
	p, ok := c.under(v.Ty).(*types.Pointer)
	if !ok {
		efail("deref of non-pointer type %s", v.Ty)
	}
	l := c.ptrLoc(v.T, p.Elem())
	t, ty := e.S.loadIn(e.Heap, e.Cells, l)
	return c.mkTV(t, ty)
}

// ptrLoc converts a first-order pointer value to a location.
func (c *Ctx) ptrLoc(ref Term, elem types.Type) *Loc {
	if c.structOf(elem) != nil {
		return &Loc{Kind: LocObj, Ref: ref, Ty: elem}
	}
	if _, ok := c.under(elem).(*types.Array); ok {
		return &Loc{Kind: LocArr, Ref: ref, Ty: elem}
	}
	return &Loc{Kind: LocBox, Ref: ref, Ty: elem}
}

func (e *SpecEnv) sel(v TV, name string) TV {
	c := e.C
	if v.Ty == nil && v.Loc == nil {
		// pseudo fields on spec sorts
		switch v.Sort {
		case "Slice":
			switch name {
			case "base", "off", "len", "cap":
				return specTV(fmt.Sprintf("(s.%s %s)", name, v.T), "Int")
			}
		case "Iface":
			switch name {
			case "tag", "val":
				return specTV(fmt.Sprintf("(i.%s %s)", name, v.T), "Int")
			}
		}
		efail("selector .%s on a value without Go type", name)
	}
	ty := v.Ty
	if v.Loc != nil && v.T == "" {
		// engine pointer: type is pointer to Loc's target
		target := c.pathType(v.Loc.Ty, v.Loc.Path)
		return e.selLoc(v.Loc, target, name)
	}
	if _, ok := c.under(ty).(*types.Slice); ok {
		switch name {
		case "$base":
			return specTV(fmt.Sprintf("(s.base %s)", v.T), "Int")
		case "$off":
			return specTV(fmt.Sprintf("(s.off %s)", v.T), "Int")
		}
	}
	if _, ok := c.under(ty).(*types.Interface); ok {
		switch name {
		case "$tag":
			return specTV(fmt.Sprintf("(i.tag %s)", v.T), "Int")
		case "$val":
			return specTV(fmt.Sprintf("(i.val %s)", v.T), "Int")
		}
	}
	if p, ok := c.under(ty).(*types.Pointer); ok {
		l := c.ptrLoc(v.T, p.Elem())
		return e.selLoc(l, p.Elem(), name)
	}
	if st := c.structOf(ty); st != nil {
		path := fieldPath(ty, name)
		if path == nil {
			efail("type %s has no field %s", ty, name)
		}
		t, cur := v.T, ty
		for _, idx := range path {
			s := c.structOf(cur)
			if s == nil {
				// embedded pointer
				if p, ok := c.under(cur).(*types.Pointer); ok {
					l := c.ptrLoc(t, p.Elem()).with(PathSel{Field: idx, Cont: p.Elem()})
					t2, ty2 := e.S.loadIn(e.Heap, e.Cells, l)
					t, cur = t2, ty2
					continue
				}
				efail("bad field path")
			}
			t = fmt.Sprintf("(%s %s)", c.fieldSel(c.structSort(cur, s), s.Field(idx).Name(), idx), t)
			cur = s.Field(idx).Type()
		}
		return c.mkTV(t, cur)
	}
	efail("selector .%s on type %s", name, ty)
	return TV{}
}

func (e *SpecEnv) selLoc(l *Loc, target types.Type, name string) TV {
	c := e.C
	path := fieldPath(target, name)
	if path == nil {
		efail("type %s has no field %s", target, name)
	}
	cur := target
	for i, idx := range path {
		if c.structOf(cur) == nil {
			if p, ok := c.under(cur).(*types.Pointer); ok {
				// load pointer, continue from pointee
				t, _ := e.S.loadIn(e.Heap, e.Cells, l)
				l = c.ptrLoc(t, p.Elem())
				cur = p.Elem()
			} else {
				efail("bad field path at %d", i)
			}
		}
		l = l.with(PathSel{Field: idx, Cont: cur})
		cur = c.structOf(cur).Field(idx).Type()
	}
	t, ty := e.S.loadIn(e.Heap, e.Cells, l)
	return c.mkTV(t, ty)
}

// fieldPath finds a (possibly promoted) field.
func fieldPath(t types.Type, name string) []int {
	obj, idx, _ := types.LookupFieldOrMethod(t, true, nil, name)
	if obj == nil {
		// unexported fields of other packages: search manually
		return fieldPathManual(t, name, 0)
	}
	if _, ok := obj.(*types.Var); !ok {
		return nil
	}
	return idx
}

func fieldPathManual(t types.Type, name string, depth int) []int {
	if depth > 4 {
		return nil
	}
	u := types.Unalias(t).Underlying()
	if p, ok := u.(*types.Pointer); ok {
		u = types.Unalias(p.Elem()).Underlying()
	}
	st, ok := u.(*types.Struct)
	if !ok {
		return nil
	}
	for i := 0; i < st.NumFields(); i++ {
		if st.Field(i).Name() == name {
			return []int{i}
		}
	}
	for i := 0; i < st.NumFields(); i++ {
		if st.Field(i).Embedded() {
			if p := fieldPathManual(st.Field(i).Type(), name, depth+1); p != nil {
				return append([]int{i}, p...)
			}
		}
	}
	return nil
}

func (e *SpecEnv) index(v, i TV) TV {
	c := e.C
	if v.Ty == nil {
		// ghost array / set / map
		if strings.HasPrefix(v.Sort, "(Array ") {
			_, rs := arraySorts(v.Sort)
			return specTV(fmt.Sprintf("(select %s %s)", v.T, i.T), rs)
		}
		efail("index of non-array spec value (sort %s)", v.Sort)
	}
	switch u := c.under(v.Ty).(type) {
	case *types.Slice:
		cn, cs := c.elemComp(u.Elem())
		t := fmt.Sprintf("(select (select %s (s.base %s)) (idx (s.off %s) %s))", compIn(c, e.Heap, cn, cs), v.T, v.T, i.T)
		return c.mkTV(t, u.Elem())
	case *types.Array:
		return c.mkTV(fmt.Sprintf("(select %s %s)", v.T, i.T), u.Elem())
	case *types.Map:
		_, vn, _, _, vs, _ := c.mapComps(u)
		return c.mkTV(fmt.Sprintf("(select (select %s %s) %s)", compIn(c, e.Heap, vn, vs), v.T, i.T), u.Elem())
	case *types.Basic:
		if u.Info()&types.IsString != 0 {
			return c.mkTV(fmt.Sprintf("(gs.at %s %s)", v.T, i.T), types.Typ[types.Uint8])
		}
	case *types.Pointer:
		if at, ok := c.under(u.Elem()).(*types.Array); ok {
			cn, cs := c.elemComp(at.Elem())
			return c.mkTV(fmt.Sprintf("(select (select %s %s) %s)", compIn(c, e.Heap, cn, cs), v.T, i.T), at.Elem())
		}
	}
	efail("cannot index type %s", v.Ty)
	return TV{}
}

func arraySorts(s string) (idx, res string) {
	// "(Array I R)" with possibly nested parentheses
	body := strings.TrimSuffix(strings.TrimPrefix(s, "(Array "), ")")
	d := 0
	for i := 0; i < len(body); i++ {
		switch body[i] {
		case '(':
			d++
		case ')':
			d--
		case ' ':
			if d == 0 {
				return body[:i], body[i+1:]
			}
		}
	}
	return body, ""
}

func (e *SpecEnv) slice(v TV, lo, hi Expr) TV {
	c := e.C
	loT := "0"
	if lo != nil {
		loT = e.eval(lo).T
	}
	if v.Ty != nil {
		if _, ok := c.under(v.Ty).(*types.Slice); ok {
			hiT := fmt.Sprintf("(s.len %s)", v.T)
			if hi != nil {
				hiT = e.eval(hi).T
			}
			return TV{T: fmt.Sprintf("(mk-slice (s.base %s) (+ (s.off %s) %s) (- %s %s) (- (s.cap %s) %s))", v.T, v.T, loT, hiT, loT, v.T, loT), Ty: v.Ty, Sort: "Slice"}
		}
		if b, ok := c.under(v.Ty).(*types.Basic); ok && b.Info()&types.IsString != 0 {
			hiT := fmt.Sprintf("(gs.len %s)", v.T)
			if hi != nil {
				hiT = e.eval(hi).T
			}
			return TV{T: fmt.Sprintf("(gs.sub %s %s %s)", v.T, loT, hiT), Ty: v.Ty, Sort: "Str"}
		}
	}
	efail("cannot slice this value")
	return TV{}
}

var smtFunResult = regexp.MustCompile(`^\((?:declare-fun|define-fun|define-fun-rec)\s+(\S+)\s+\((.*)\)\s+(\(.*?\)|\S+)`)

// smtFuncSort finds the result sort of a raw SMT function declared in an `smt` line.
func (c *Ctx) smtFuncSort(name string) (string, bool) {
	for _, l := range c.SS.Smt {
		l = strings.TrimSpace(l)
		for _, kw := range []string{"(declare-fun ", "(define-fun-rec ", "(define-fun "} {
			if strings.HasPrefix(l, kw) {
				rest := strings.TrimSpace(l[len(kw):])
				sp := strings.IndexAny(rest, " \t")
				if sp < 0 || rest[:sp] != name {
					continue
				}
				rest = strings.TrimSpace(rest[sp:])
				// parameter list
				k := matchParen(rest, 0)
				if k < 0 {
					continue
				}
				after := strings.TrimSpace(rest[k+1:])
				if strings.HasPrefix(after, "(") {
					k2 := matchParen(after, 0)
					return after[:k2+1], true
				}
				sp2 := strings.IndexAny(after, " \t)")
				if sp2 < 0 {
					return after, true
				}
				return after[:sp2], true
			}
		}
	}
	switch name {
	case "okey", "intr", "okey.v", "okey.t", "intr.r", "intr.f":
		c.usesObjKey = true
		return "Int", true
	case "idx", "pow2", "go.div", "go.mod", "nl.div", "nl.mod", "nl.mul", "gs.len", "gs.at", "band8", "bor8", "bxor8", "bnot8", "shl8", "shr8", "val8", "bit.and", "bit.or", "bit.xor", "bit.andnot":
		return "Int", true
	case "gs.lt", "bit8", "bs.lt":
		return "Bool", true
	case "bs.pfx", "bseq", "bseq.str":
		return "BSeq", true
	case "bs.len":
		return "Int", true
	case "gs.sub", "gs.cat":
		return "Str", true
	}
	return "", false
}

func (e *SpecEnv) call(x *ECall) TV {
	c := e.C
	switch x.Fun {
	case "len", "cap":
		v := e.eval(x.Args[0])
		if v.Ty == nil {
			if v.Sort == "Slice" {
				return TV{T: fmt.Sprintf("(s.%s %s)", x.Fun, v.T), Ty: tyInt, Sort: "Int"}
			}
			if v.Sort == "Str" {
				return TV{T: fmt.Sprintf("(gs.len %s)", v.T), Ty: tyInt, Sort: "Int"}
			}
			efail("len of spec value")
		}
		switch u := c.under(v.Ty).(type) {
		case *types.Slice:
			return TV{T: fmt.Sprintf("(s.%s %s)", x.Fun, v.T), Ty: tyInt, Sort: "Int"}
		case *types.Basic:
			return TV{T: fmt.Sprintf("(gs.len %s)", v.T), Ty: tyInt, Sort: "Int"}
		case *types.Array:
			return TV{T: fmt.Sprint(u.Len()), Ty: tyInt, Sort: "Int"}
		case *types.Map:
			_, _, ln, _, _, ls := c.mapComps(u)
			return TV{T: fmt.Sprintf("(select %s %s)", compIn(c, e.Heap, ln, ls), v.T), Ty: tyInt, Sort: "Int"}
		case *types.Pointer:
			if at, ok := c.under(u.Elem()).(*types.Array); ok {
				return TV{T: fmt.Sprint(at.Len()), Ty: tyInt, Sort: "Int"}
			}
		}
		efail("len of type %s", v.Ty)
	case "min", "max":
		a, b := e.eval(x.Args[0]), e.eval(x.Args[1])
		a, b = e.unify(a, b)
		op := "<="
		if x.Fun == "max" {
			op = ">="
		}
		return TV{T: fmt.Sprintf("(ite (%s %s %s) %s %s)", op, a.T, b.T, a.T, b.T), Ty: a.Ty, Sort: a.Sort}
	case "div", "mod":
		a, b := e.eval(x.Args[0]), e.eval(x.Args[1])
		return TV{T: fmt.Sprintf("(%s %s %s)", x.Fun, a.T, b.T), Ty: a.Ty, Sort: "Int"}
	case "abs":
		a := e.eval(x.Args[0])
		return TV{T: fmt.Sprintf("(ite (>= %s 0) %s (- %s))", a.T, a.T, a.T), Ty: a.Ty, Sort: a.Sort}
	case "has":
		m, k := e.eval(x.Args[0]), e.eval(x.Args[1])
		if m.Ty != nil {
			if mt, ok := c.under(m.Ty).(*types.Map); ok {
				dn, _, _, ds, _, _ := c.mapComps(mt)
				return specTV(fmt.Sprintf("(and (not (= %s 0)) (select (select %s %s) %s))", m.T, compIn(c, e.Heap, dn, ds), m.T, k.T), "Bool")
			}
		}
		return specTV(fmt.Sprintf("(select %s %s)", m.T, k.T), "Bool")
	case "mapdom", "mapvals":
		// mapdom(m) / mapvals(m): the key set (Array K Bool) and the key->value array of Go map m in the current
		// state, as values (a ghost variable can keep them as a snapshot of the map's contents)
		m := e.eval(x.Args[0])
		if m.Ty != nil {
			if mt, ok := c.under(m.Ty).(*types.Map); ok {
				dn, vn, _, ds, vs, _ := c.mapComps(mt)
				if x.Fun == "mapdom" {
					_, rs := arraySorts(ds)
					return specTV(fmt.Sprintf("(select %s %s)", compIn(c, e.Heap, dn, ds), m.T), rs)
				}
				_, rs := arraySorts(vs)
				return specTV(fmt.Sprintf("(select %s %s)", compIn(c, e.Heap, vn, vs), m.T), rs)
			}
		}
		efail("%s needs a Go map", x.Fun)
	case "pre":
		// pre(g): the value of ghost variable g in the pre-state (at function entry; before the call at a call site)
		id, ok := x.Args[0].(*EIdent)
		if !ok {
			efail("pre() takes a ghost variable name")
		}
		if e.Ghost0 != nil {
			if v, ok := e.Ghost0[id.Name]; ok {
				return v
			}
		}
		if e.Old != nil && e.Old.Ghost0 != nil {
			if v, ok := e.Old.Ghost0[id.Name]; ok {
				return v
			}
		}
		efail("unknown identifier %s (pre-state ghost)", id.Name)
	case "objkey":
		// objkey(x): identity of the object behind a pointer or an interface holding a pointer, as one integer
		// (injective pairing of dynamic type tag and reference); the index of per-object ghost maps
		v := e.eval(x.Args[0])
		c.usesObjKey = true
		if v.Sort == "Iface" {
			return specTV(fmt.Sprintf("(okey (i.tag %s) (i.val %s))", v.T, v.T), "Int")
		}
		if v.Ty != nil {
			if _, ok := c.under(v.Ty).(*types.Pointer); ok {
				ref := v.T
				if ref == "" && v.Loc != nil {
					l := v.Loc
					if (l.Kind == LocObj || l.Kind == LocBox) && len(l.Path) == 0 {
						ref = l.Ref
					} else if l.Kind == LocObj && len(l.Path) == 1 && !l.Path[0].IsIdx {
						// pointer to a struct field (an embedded struct): identified by (object, field)
						ref = fmt.Sprintf("(intr %s %d)", l.Ref, l.Path[0].Field)
					} else {
						efail("objkey of an interior pointer")
					}
				}
				return specTV(fmt.Sprintf("(okey %s %s)", c.tagOf(v.Ty), ref), "Int")
			}
		}
		efail("objkey needs a pointer or an interface value")
	case "allocated":
		// allocated(x): the reference exists now (it is not above the current allocation watermark)
		v := e.eval(x.Args[0])
		v = e.locTerm(v)
		ref := v.T
		if v.Sort == "Slice" {
			ref = fmt.Sprintf("(s.base %s)", v.T)
		} else if v.Sort == "Iface" {
			ref = fmt.Sprintf("(i.val %s)", v.T)
		}
		return specTV(fmt.Sprintf("(and (<= 0 %s) (<= %s %s))", ref, ref, e.S.WM), "Bool")
	case "wm0":
		// wm0(): the allocation watermark of the pre-state (function entry; at a call site: just before the call)
		wm := e.WM0
		if wm == "" {
			wm = "WM!0"
		}
		return specTV(wm, "Int")
	case "freshkey":
		// freshkey(k): the object identified by objkey value k did not exist at function entry (for the address of an
		// embedded field: the enclosing object did not)
		v := e.eval(x.Args[0])
		c.usesObjKey = true
		wm := e.WM0
		if wm == "" {
			wm = "WM!0"
		}
		return specTV(fmt.Sprintf("(ite (>= (okey.v %s) 0) (> (okey.v %s) %s) (> (intr.r (okey.v %s)) %s))", v.T, v.T, wm, v.T, wm), "Bool")
	case "fresh":
		// fresh(x): the reference did not exist at function entry
		v := e.eval(x.Args[0])
		v = e.locTerm(v)
		ref := v.T
		if v.Sort == "Slice" {
			ref = fmt.Sprintf("(s.base %s)", v.T)
		} else if v.Sort == "Iface" {
			ref = fmt.Sprintf("(i.val %s)", v.T)
		}
		wm := e.WM0
		if wm == "" {
			wm = "WM!0"
		}
		return specTV(fmt.Sprintf("(> %s %s)", ref, wm), "Bool")
	case "sinceloop":
		// sinceloop(x): the reference was allocated after the loop (whose invariant this is) was entered
		if e.LoopWM == "" {
			efail("sinceloop() is only meaningful in a loop invariant")
		}
		v := e.eval(x.Args[0])
		v = e.locTerm(v)
		ref := v.T
		if v.Sort == "Slice" {
			ref = fmt.Sprintf("(s.base %s)", v.T)
		} else if v.Sort == "Iface" {
			ref = fmt.Sprintf("(i.val %s)", v.T)
		}
		return specTV(fmt.Sprintf("(> %s %s)", ref, e.LoopWM), "Bool")
	case "typeIs":
		// typeIs(x, T): dynamic type of interface x is T
		v := e.eval(x.Args[0])
		tn := exprText(x.Args[1])
		ty, _ := e.resolveType(tn)
		return specTV(fmt.Sprintf("(= (i.tag %s) %s)", v.T, c.tagOf(ty)), "Bool")
	case "as":
		// as(x, T): x viewed as a value of Go type T (no conversion)
		v := e.eval(x.Args[0])
		ty, srt := e.resolveType(exprText(x.Args[1]))
		if v.Loc != nil && v.T == "" {
			v = e.locTerm(v)
		}
		return TV{T: v.T, Ty: ty, Sort: srt}
	case "asPtr":
		// asPtr(x, T): payload of interface x as pointer of type T (T given as *Named)
		v := e.eval(x.Args[0])
		tn := exprText(x.Args[1])
		ty, _ := e.resolveType(tn)
		return TV{T: fmt.Sprintf("(i.val %s)", v.T), Ty: ty, Sort: "Int"}
	case "int", "Int", "uint64", "int64", "uint32", "int32", "uint", "uint8", "byte", "uint16", "int16", "int8":
		v := e.eval(x.Args[0])
		if x.Fun == "Int" {
			return TV{T: v.T, Sort: "Int"}
		}
		ty, _ := e.resolveType(x.Fun)
		if v.Sort == "Real" {
			return TV{T: "(to_int " + v.T + ")", Ty: ty, Sort: "Int"}
		}
		return TV{T: v.T, Ty: ty, Sort: "Int"}
	case "real", "float64":
		v := e.eval(x.Args[0])
		if v.Sort == "Int" {
			return TV{T: "(to_real " + v.T + ")", Ty: types.Typ[types.Float64], Sort: "Real"}
		}
		return v
	case "string":
		v := e.eval(x.Args[0])
		if v.Sort == "Slice" {
			return TV{T: e.bytesToStr(v), Ty: types.Typ[types.String], Sort: "Str"}
		}
		return v
	case "select":
		a, i := e.eval(x.Args[0]), e.eval(x.Args[1])
		_, rs := arraySorts(a.Sort)
		r := specTV(fmt.Sprintf("(select %s %s)", a.T, i.T), rs)
		if a.ElemTy != nil {
			// elems(s) of a Go slice: the selected cell has the slice's element type (so that fields can be selected)
			r.Ty = a.ElemTy
		}
		return r
	case "store":
		a, i, v := e.eval(x.Args[0]), e.eval(x.Args[1]), e.eval(x.Args[2])
		return specTV(fmt.Sprintf("(store %s %s %s)", a.T, i.T, v.T), a.Sort)
	case "bytes":
		// bytes(x): the content of a []byte or string as an abstract byte sequence (sort BSeq)
		v := e.eval(x.Args[0])
		c.usesBSeq = true
		if v.Sort == "Str" {
			return specTV(fmt.Sprintf("(bseq.str %s)", v.T), "BSeq")
		}
		u, ok := c.under(v.Ty).(*types.Slice)
		if !ok {
			efail("bytes() of non-slice")
		}
		cn, cs := c.elemComp(u.Elem())
		return specTV(fmt.Sprintf("(bseq (select %s (s.base %s)) (s.off %s) (s.len %s))", compIn(c, e.Heap, cn, cs), v.T, v.T, v.T), "BSeq")
	case "elems":
		// elems(s): the backing array (Array Int T) of slice s, indexed by absolute position
		v := e.eval(x.Args[0])
		u, ok := c.under(v.Ty).(*types.Slice)
		if !ok {
			efail("elems of non-slice")
		}
		cn, cs := c.elemComp(u.Elem())
		ev := specTV(fmt.Sprintf("(select %s (s.base %s))", compIn(c, e.Heap, cn, cs), v.T), "(Array Int "+c.sortOf(u.Elem())+")")
		ev.ElemTy = u.Elem()
		return ev
	}
	if j := strings.LastIndex(x.Fun, "."); j >= 0 {
		if _, ok := c.SS.Defines[x.Fun[j+1:]]; ok {
			if _, isSmt := c.smtFuncSort(x.Fun); !isSmt {
				x = &ECall{Fun: x.Fun[j+1:], Args: x.Args}
			}
		}
	}
	if d, ok := c.SS.Defines[x.Fun]; ok {
		if len(d.Params) != len(x.Args) {
			efail("spec function %s expects %d arguments", x.Fun, len(d.Params))
		}
		if e.depth > 40 {
			efail("spec function expansion too deep (recursive define?) at %s", x.Fun)
		}
		n := e.child()
		n.depth = e.depth + 1
		// defines are closed: only their parameters (and bound vars passed as args) are visible; locals stay hidden
		for i, p := range d.Params {
			av := e.eval(x.Args[i])
			pty, psort := e.resolveTypeIn(p.Type, d.Pkg)
			if av.Sort == "nil" {
				av = e.nilOf(TV{Ty: pty, Sort: psort})
			}
			if av.Loc != nil && av.T == "" {
				// keep engine pointer
			} else if pty != nil {
				av.Ty = pty
			}
			n.Vars[p.Name] = av
		}
		if pkg := c.findPackage(d.Pkg, e.Pkg); pkg != nil && d.Pkg != "" {
			n.Pkg = pkg
		}
		r := n.eval(d.Body)
		rty, rsort := e.resolveTypeIn(d.Result, d.Pkg)
		if rty != nil {
			r.Ty = rty
		}
		if rsort == "Bool" && r.Sort != "Bool" {
			efail("define %s: body is not boolean", d.Name)
		}
		return r
	}
	if ax, ok := c.SS.Axioms[x.Fun]; ok && len(x.Args) == 0 {
		_ = ax
	}
	if sort, ok := c.smtFuncSort(x.Fun); ok {
		if strings.HasPrefix(x.Fun, "bs.") || strings.HasPrefix(x.Fun, "bseq") {
			c.usesBSeq = true
		}
		var args []string
		for _, a := range x.Args {
			v := e.eval(a)
			if v.Loc != nil && v.T == "" {
				v = e.locTerm(v)
			}
			args = append(args, v.T)
		}
		if len(args) == 0 {
			return specTV(x.Fun, sort)
		}
		return specTV("("+x.Fun+" "+strings.Join(args, " ")+")", sort)
	}
	efail("unknown function %q in contract", x.Fun)
	return TV{}
}

func (e *SpecEnv) resolveTypeIn(text, pkg string) (types.Type, string) {
	if pkg != "" {
		if p := e.C.findPackage(pkg, e.Pkg); p != nil {
			n := *e
			n.Pkg = p
			return n.resolveType(text)
		}
	}
	return e.resolveType(text)
}

func (e *SpecEnv) bytesToStr(v TV) string {
	c := e.C
	cn, cs := c.elemComp(types.Typ[types.Uint8])
	return fmt.Sprintf("(gs.ofbytes (s.base %s) (s.off %s) (s.len %s) (select %s (s.base %s)))", v.T, v.T, v.T, compIn(c, e.Heap, cn, cs), v.T)
}

func exprText(x Expr) string {
	switch x := x.(type) {
	case *EIdent:
		return x.Name
	case *ESel:
		return exprText(x.X) + "." + x.Name
	case *EUn:
		if x.Op == "*" {
			return "*" + exprText(x.X)
		}
	}
	return ""
}

// addr evaluates &x.f (x a pointer, an engine location, or itself a field path) to a location.
func (e *SpecEnv) addr(x Expr) (*Loc, types.Type) {
	c := e.C
	sel, ok := x.(*ESel)
	if !ok {
		efail("& needs a field selection")
	}
	var l *Loc
	var target types.Type
	if inner, ok := sel.X.(*ESel); ok {
		// is the inner expression a package-qualified name? then evaluate it as a value
		isPkg := false
		if id, ok := inner.X.(*EIdent); ok {
			if _, isVar := e.lookup(id.Name); !isVar && c.findPackage(id.Name, e.Pkg) != nil {
				isPkg = true
			}
		}
		if !isPkg {
			bl, bty := e.addr(inner)
			if p, ok := c.under(bty).(*types.Pointer); ok {
				t, _ := e.S.loadIn(e.Heap, e.Cells, bl)
				l = c.ptrLoc(t, p.Elem())
				target = p.Elem()
			} else {
				l, target = bl, bty
			}
		}
	}
	if l == nil {
		base := e.eval(sel.X)
		if base.Loc != nil {
			l = base.Loc
			target = c.pathType(l.Ty, l.Path)
		} else if base.Ty != nil {
			if p, ok := c.under(base.Ty).(*types.Pointer); ok {
				l = c.ptrLoc(base.T, p.Elem())
				target = p.Elem()
			}
		}
	}
	if l == nil {
		efail("& of a field of a non-pointer")
	}
	if c.structOf(target) == nil {
		efail("&: %s is not a struct", target)
	}
	path := fieldPath(target, sel.Name)
	if len(path) == 0 {
		efail("&: field %s not found in %s", sel.Name, target)
	}
	cur := target
	for _, idx := range path {
		if c.structOf(cur) == nil {
			efail("&: promoted field %s through an embedded pointer is not supported", sel.Name)
		}
		l = l.with(PathSel{Field: idx, Cont: cur})
		cur = c.structOf(cur).Field(idx).Type()
	}
	return l, cur
}


// Goal is one proof goal: under the extra hypotheses Pre, Goal must hold.
type Goal struct {
	Pre  []Term
	Goal Term
}

// evalGoals evaluates a boolean contract clause as a list of goals: top-level conjunctions are split,
// universally quantified goals are skolemised, implications move their antecedent into the hypotheses.
// (Solvers turned out to be unreliable on `(not (forall ...))` goals that they skolemise themselves.)
func (e *SpecEnv) evalGoals(x Expr) (gs []Goal, err error) {
	defer func() {
		if r := recover(); r != nil {
			if s, ok := r.(evalErr); ok {
				err = fmt.Errorf("%s", string(s))
				return
			}
			panic(r)
		}
	}()
	return e.goals(x, nil, 0), nil
}

func (e *SpecEnv) goals(x Expr, pre []Term, depth int) []Goal {
	c := e.C
	switch x := x.(type) {
	case *EBin:
		switch x.Op {
		case "&&":
			l := e.goals(x.X, pre, depth+1)
			// the left conjunct may be assumed while proving the right one
			lt := e.eval(x.X)
			r := e.goals(x.Y, append(append([]Term{}, pre...), lt.T), depth+1)
			return append(l, r...)
		case "==>":
			// (exists v :: P) ==> Q   is   forall v :: P ==> Q : skolemise the antecedent
			if q, ok := stripParens(x.X).(*EQuant); ok && !q.Forall {
				n := e.child()
				p2 := append([]Term{}, pre...)
				for _, qv := range q.Vars {
					ty, sort := e.resolveType(qv.Type)
					name := c.fresh("sk_" + qv.Name)
					c.declare(name, sort)
					n.Vars[qv.Name] = TV{T: name, Ty: ty, Sort: sort}
					n.markBound(qv.Name)
					if ty != nil {
						p2 = append(p2, c.wf(name, ty, 0)...)
					}
				}
				b := n.eval(q.Body)
				return n.goals(x.Y, append(p2, b.T), depth+1)
			}
			if ab, ok := stripParens(x.X).(*EBin); ok && ab.Op == "&&" {
				// (A && B) ==> C  is  A ==> (B ==> C): exposes existential conjuncts to skolemisation
				return e.goals(&EBin{"==>", ab.X, &EBin{"==>", ab.Y, x.Y}}, pre, depth+1)
			}
			a := e.eval(x.X)
			if a.Sort != "Bool" {
				efail("==> needs boolean operands")
			}
			return e.goals(x.Y, append(append([]Term{}, pre...), a.T), depth+1)
		case "<==>":
			l := e.goals(&EBin{"==>", x.X, x.Y}, pre, depth+1)
			r := e.goals(&EBin{"==>", x.Y, x.X}, pre, depth+1)
			return append(l, r...)
		}
	case *EQuant:
		if x.Forall {
			n := e.child()
			p2 := append([]Term{}, pre...)
			for _, qv := range x.Vars {
				ty, sort := e.resolveType(qv.Type)
				name := c.fresh("sk_" + qv.Name)
				c.declare(name, sort)
				n.Vars[qv.Name] = TV{T: name, Ty: ty, Sort: sort}
				n.markBound(qv.Name)
				if ty != nil {
					p2 = append(p2, c.wf(name, ty, 0)...)
				}
			}
			return n.goals(x.Body, p2, depth+1)
		}
	case *ELet:
		v := e.eval(x.Val)
		n := e.child()
		n.Vars[x.Name] = v
		return n.goals(x.Body, pre, depth+1)
	case *ECall:
		// expand boolean spec functions so that their conjuncts are split too
		if d, ok := c.SS.Defines[x.Fun]; ok && len(d.Params) == len(x.Args) && e.depth < 40 {
			if _, rs := e.resolveTypeIn(d.Result, d.Pkg); rs == "Bool" {
				n := e.child()
				n.depth = e.depth + 1
				for i, p := range d.Params {
					av := e.eval(x.Args[i])
					pty, psort := e.resolveTypeIn(p.Type, d.Pkg)
					if av.Sort == "nil" {
						av = e.nilOf(TV{Ty: pty, Sort: psort})
					}
					if !(av.Loc != nil && av.T == "") && pty != nil {
						av.Ty = pty
					}
					n.Vars[p.Name] = av
				}
				if pkg := c.findPackage(d.Pkg, e.Pkg); pkg != nil && d.Pkg != "" {
					n.Pkg = pkg
				}
				return n.goals(d.Body, pre, depth+1)
			}
		}
	}
	v := e.eval(x)
	if v.Sort != "Bool" {
		efail("expected boolean expression, got sort %s", v.Sort)
	}
	return []Goal{{Pre: pre, Goal: v.T}}
}

func (e *SpecEnv) addrSafe(sel *ESel) (l *Loc, err error) {
	defer func() {
		if r := recover(); r != nil {
			if s, ok := r.(evalErr); ok {
				err = fmt.Errorf("%s", string(s))
				l = nil
				return
			}
			panic(r)
		}
	}()
	l, _ = e.addr(sel)
	return l, nil
}

func stripParens(x Expr) Expr { return x }

var defNameRe = regexp.MustCompile(`[A-Za-z_][A-Za-z0-9_.]*![0-9]+`)
var boundNameRe = regexp.MustCompile(`q_[A-Za-z0-9_]+![0-9]+`)

// evalMapof: `mapof x T :: e` is the total map x -> e as an SMT array. It is named by a constant that is defined by one
// quantified axiom (select m x) = e; the same body text (same heap versions, same locals) gets the same constant, so
// that two evaluations in states that agree on what e reads denote the same map syntactically.
func (e *SpecEnv) evalMapof(x *EQuant) TV {
	c := e.C
	if len(x.Vars) != 1 {
		efail("mapof binds exactly one variable")
	}
	qv := x.Vars[0]
	ty, sort := e.resolveType(qv.Type)
	n := e.child()
	bv := "mo!" + qv.Name
	n.Vars[qv.Name] = TV{T: bv, Ty: ty, Sort: sort}
	n.markBound(qv.Name)
	body := n.eval(x.Body)
	if body.Loc != nil && body.T == "" {
		body = n.locTerm(body)
	}
	if boundNameRe.MatchString(body.T) {
		efail("mapof body mentions a variable bound by an enclosing quantifier")
	}
	// names introduced by path-local define-funs are replaced by what they stand for: the defining axiom is global
	for depth := 0; depth < 64; depth++ {
		changed := false
		body.T = defNameRe.ReplaceAllStringFunc(body.T, func(w string) string {
			if d, ok := c.defs[w]; ok {
				changed = true
				return d
			}
			return w
		})
		if !changed {
			break
		}
	}
	key := sort + "|" + body.Sort + "|" + body.T
	if c.mapofMemo == nil {
		c.mapofMemo = map[string]string{}
	}
	name, ok := c.mapofMemo[key]
	asort := fmt.Sprintf("(Array %s %s)", sort, body.Sort)
	if !ok {
		name = c.fresh("mapof")
		c.declare(name, asort)
		c.mapofMemo[key] = name
		c.mapofDefs = append(c.mapofDefs, fmt.Sprintf("(assert (forall ((%s %s)) (! (= (select %s %s) %s) :pattern ((select %s %s)))))", bv, sort, name, bv, body.T, name, bv))
	}
	return specTV(name, asort)
}
