package main

import (
	"fmt"
	"go/types"
	"sort"
	"strings"

	"golang.org/x/tools/go/ssa"
)

// ---------------------------------------------------------------------------
// Loop structure
// ---------------------------------------------------------------------------

type Loop struct {
	Head    *ssa.BasicBlock
	Ordinal int
	Body    map[*ssa.BasicBlock]bool
	// statically computed effects
	ModCells  map[*ssa.Alloc]bool
	ModComps  map[string]string // component name -> sort
	ModAll    bool
	Writers   map[string][]ssa.Value // component -> the base values stored through (nil entry = unknown base)
	SpecWrites []specWrite           // writes described by the modifies clause of a called contract
	Reasons   []string
	ModGhosts map[string]bool // ghost variables named in the modifies clause of a contract called in the body
}

type specWrite struct {
	sp    *FuncSpec
	fn    *ssa.Function
	cc    *ssa.CallCommon
	m     string
	comps [][2]string
}

type LoopInfo struct {
	loops  []*Loop
	byHead map[*ssa.BasicBlock]*Loop
}

var loopCache = map[*ssa.Function]*LoopInfo{}

func (c *Ctx) loopInfo(fn *ssa.Function) *LoopInfo {
	if li, ok := loopCache[fn]; ok {
		return li
	}
	li := &LoopInfo{byHead: map[*ssa.BasicBlock]*Loop{}}
	loopCache[fn] = li
	for _, b := range fn.Blocks {
		for _, p := range b.Preds {
			if b.Dominates(p) { // back edge p -> b
				l := li.byHead[b]
				if l == nil {
					l = &Loop{Head: b, Body: map[*ssa.BasicBlock]bool{b: true}}
					li.byHead[b] = l
					li.loops = append(li.loops, l)
				}
				// natural loop: all blocks that reach p without passing b
				stack := []*ssa.BasicBlock{p}
				for len(stack) > 0 {
					x := stack[len(stack)-1]
					stack = stack[:len(stack)-1]
					if l.Body[x] {
						continue
					}
					l.Body[x] = true
					stack = append(stack, x.Preds...)
				}
			}
		}
	}
	sort.Slice(li.loops, func(i, j int) bool { return li.loops[i].Head.Index < li.loops[j].Head.Index })
	for i, l := range li.loops {
		l.Ordinal = i + 1
	}
	return li
}

// analyseLoop computes the over-approximated write set of a loop.
func (c *Ctx) analyseLoop(l *Loop) {
	if l.ModCells != nil {
		return
	}
	l.ModCells = map[*ssa.Alloc]bool{}
	l.ModComps = map[string]string{}
	l.Writers = map[string][]ssa.Value{}
	seen := map[*ssa.Function]bool{}
	var blocks []*ssa.BasicBlock
	for b := range l.Body {
		blocks = append(blocks, b)
	}
	sort.Slice(blocks, func(i, j int) bool { return blocks[i].Index < blocks[j].Index })
	for _, b := range blocks {
		for _, ins := range b.Instrs {
			c.effects(ins, l, true, seen, 0)
		}
	}
}

// rootOf follows address computations to the underlying allocation / pointer value.
// Returns (alloc if the address is inside a local cell, component name/sort for a heap write, base value).
func (c *Ctx) effectsOfStoreAddr(addr ssa.Value, l *Loop, top bool) {
	switch a := addr.(type) {
	case *ssa.Alloc:
		t := a.Type().(*types.Pointer).Elem()
		if _, isArr := c.under(t).(*types.Array); isArr {
			n, s := c.elemComp(c.under(t).(*types.Array).Elem())
			c.addComp(l, n, s, a)
			return
		}
		if !a.Heap {
			if top {
				l.ModCells[a] = true
			}
			return
		}
		c.addPointeeComps(l, t, a)
	case *ssa.FieldAddr:
		// is the base a path inside a local cell?
		if root, ok := localRoot(a.X); ok {
			if top {
				l.ModCells[root] = true
			}
			return
		}
		pt := c.under(a.X.Type()).(*types.Pointer).Elem()
		if inner, ok := a.X.(*ssa.FieldAddr); ok {
			// nested value struct inside a heap object: the write goes to the outermost field's component
			c.effectsOfStoreAddr(inner, l, top)
			return
		}
		if inner, ok := a.X.(*ssa.IndexAddr); ok {
			c.effectsOfStoreAddr(inner, l, top)
			return
		}
		n, s, _ := c.fieldComp(pt, a.Field)
		c.addComp(l, n, s, a.X)
	case *ssa.IndexAddr:
		switch u := c.under(a.X.Type()).(type) {
		case *types.Slice:
			n, s := c.elemComp(u.Elem())
			c.addComp(l, n, s, a.X)
		case *types.Pointer:
			at := c.under(u.Elem()).(*types.Array)
			if root, ok := a.X.(*ssa.Alloc); ok {
				n, s := c.elemComp(at.Elem())
				c.addComp(l, n, s, root)
				return
			}
			if inner, ok := a.X.(*ssa.FieldAddr); ok {
				c.effectsOfStoreAddr(inner, l, top)
				return
			}
			n, s := c.elemComp(at.Elem())
			c.addComp(l, n, s, nil)
		}
	case *ssa.Global:
		n, s, _ := c.globalComp(a)
		c.addComp(l, n, s, nil)
	default:
		// pointer value of unknown origin (parameter, loaded pointer)
		if pt, ok := c.under(addr.Type()).(*types.Pointer); ok {
			c.addPointeeComps(l, pt.Elem(), addr)
			return
		}
		l.ModAll = true
		l.Reasons = append(l.Reasons, "store through "+addr.String())
	}
}

func (c *Ctx) addPointeeComps(l *Loop, t types.Type, base ssa.Value) {
	if st := c.structOf(t); st != nil {
		for i := 0; i < st.NumFields(); i++ {
			n, s, _ := c.fieldComp(t, i)
			c.addComp(l, n, s, base)
		}
		return
	}
	if at, ok := c.under(t).(*types.Array); ok {
		n, s := c.elemComp(at.Elem())
		c.addComp(l, n, s, base)
		return
	}
	n, s := c.boxComp(t)
	c.addComp(l, n, s, base)
}

func (c *Ctx) addComp(l *Loop, name, sort string, base ssa.Value) {
	l.ModComps[name] = sort
	l.Writers[name] = append(l.Writers[name], base)
}

func localRoot(v ssa.Value) (*ssa.Alloc, bool) {
	for {
		switch a := v.(type) {
		case *ssa.Alloc:
			if a.Heap {
				return nil, false
			}
			if _, isArr := a.Type().(*types.Pointer).Elem().Underlying().(*types.Array); isArr {
				return nil, false
			}
			return a, true
		case *ssa.FieldAddr:
			v = a.X
		case *ssa.IndexAddr:
			if _, ok := a.X.Type().Underlying().(*types.Pointer); ok {
				v = a.X
			} else {
				return nil, false
			}
		default:
			return nil, false
		}
	}
}

func (c *Ctx) effects(ins ssa.Instruction, l *Loop, top bool, seen map[*ssa.Function]bool, depth int) {
	switch ins := ins.(type) {
	case *ssa.Store:
		c.effectsOfStoreAddr(ins.Addr, l, top)
	case *ssa.MapUpdate:
		m := c.under(ins.Map.Type()).(*types.Map)
		dn, vn, ln, ds, vs, ls := c.mapComps(m)
		c.addComp(l, dn, ds, ins.Map)
		c.addComp(l, vn, vs, ins.Map)
		c.addComp(l, ln, ls, ins.Map)
	case *ssa.Alloc:
		// allocation inside the loop initialises storage
		t := ins.Type().(*types.Pointer).Elem()
		if at, ok := c.under(t).(*types.Array); ok {
			n, s := c.elemComp(at.Elem())
			c.addComp(l, n, s, ins)
		} else if ins.Heap {
			c.addPointeeComps(l, t, ins)
		}
	case *ssa.MakeSlice:
		n, s := c.elemComp(c.under(ins.Type()).(*types.Slice).Elem())
		c.addComp(l, n, s, ins)
	case *ssa.MakeMap:
		m := c.under(ins.Type()).(*types.Map)
		dn, vn, ln, ds, vs, ls := c.mapComps(m)
		c.addComp(l, dn, ds, ins)
		c.addComp(l, vn, vs, ins)
		c.addComp(l, ln, ls, ins)
	case *ssa.MakeInterface, *ssa.Convert:
		// boxes / byte copies are fresh
		if cv, ok := ins.(*ssa.Convert); ok {
			if c.sortOf(cv.Type()) == "Slice" && c.sortOf(cv.X.Type()) == "Str" {
				n, s := c.elemComp(c.under(cv.Type()).(*types.Slice).Elem())
				c.addComp(l, n, s, cv)
			}
		}
	case *ssa.Go:
		if c.Spec != nil && c.Spec.GoSequential {
			c.callEffects(ins, l, top, seen, depth)
			return
		}
		l.ModAll = true
		l.Reasons = append(l.Reasons, "go statement")
	case *ssa.Defer:
		// executed at function exit
	case ssa.CallInstruction:
		c.callEffects(ins, l, top, seen, depth)
	}
}

func (c *Ctx) callEffects(ins ssa.CallInstruction, l *Loop, top bool, seen map[*ssa.Function]bool, depth int) {
	cc := ins.Common()
	name := calleeName(cc)
	if b, ok := cc.Value.(*ssa.Builtin); ok {
		switch b.Name() {
		case "append":
			n, s := c.elemComp(c.under(cc.Args[0].Type()).(*types.Slice).Elem())
			c.addComp(l, n, s, cc.Args[0])
		case "copy":
			n, s := c.elemComp(c.under(cc.Args[0].Type()).(*types.Slice).Elem())
			c.addComp(l, n, s, cc.Args[0])
		case "delete", "clear":
			if sl, ok := c.under(cc.Args[0].Type()).(*types.Slice); ok {
				n, s := c.elemComp(sl.Elem())
				c.addComp(l, n, s, cc.Args[0])
			}
			if m, ok := c.under(cc.Args[0].Type()).(*types.Map); ok {
				dn, vn, ln, ds, vs, ls := c.mapComps(m)
				c.addComp(l, dn, ds, cc.Args[0])
				c.addComp(l, vn, vs, cc.Args[0])
				c.addComp(l, ln, ls, cc.Args[0])
			}
		}
		return
	}
	if abortNames[name] || isNoopCall(name) {
		return
	}
	if cc.IsInvoke() {
		if sp := c.ifaceMethodSpec(cc.Value.Type(), cc.Method.Name()); sp != nil {
			c.specEffects(sp, nil, cc, l)
			return
		}
		l.ModAll = true
		l.Reasons = append(l.Reasons, "call "+name)
		return
	}
	fn := cc.StaticCallee()
	if fn == nil {
		if mc, ok := cc.Value.(*ssa.MakeClosure); ok {
			fn = mc.Fn.(*ssa.Function)
		}
	}
	if fn == nil {
		if sp := c.funcTypeSpec(cc.Value.Type()); sp != nil {
			c.specEffects(sp, nil, cc, l)
			return
		}
		pn := paramNameOf(cc.Value)
		if spn, ok := c.Spec.CallSpecs[pn]; ok && pn != "" {
			if sp := c.SS.Funcs["funcspec::"+spn]; sp != nil {
				c.specEffects(sp, nil, cc, l)
				return
			}
		}
		l.ModAll = true
		l.Reasons = append(l.Reasons, "dynamic call "+name)
		return
	}
	key := funcKey(fn)
	if sp := c.SS.specFor(fn); sp != nil && (sp.HasBody || sp.Trusted) && !sp.Inline {
		c.specEffects(sp, fn, cc, l)
		return
	}
	if len(fn.Blocks) > 0 && depth < 8 && !seen[fn] && c.inlinable(fn) {
		if li := c.loopInfo(fn); len(li.loops) == 0 {
			seen[fn] = true
			// effects of the inlined body, with write bases translated back to the caller's argument values
			sub := &Loop{Head: l.Head, Body: l.Body, ModCells: map[*ssa.Alloc]bool{}, ModComps: map[string]string{}, Writers: map[string][]ssa.Value{}}
			for _, b := range fn.Blocks {
				for _, i2 := range b.Instrs {
					c.effects(i2, sub, false, seen, depth+1)
				}
			}
			delete(seen, fn)
			if sub.ModAll {
				l.ModAll = true
				l.Reasons = append(l.Reasons, sub.Reasons...)
			}
			for g := range sub.ModGhosts {
				if l.ModGhosts == nil {
					l.ModGhosts = map[string]bool{}
				}
				l.ModGhosts[g] = true
			}
			for n, srt := range sub.ModComps {
				for _, w := range sub.Writers[n] {
					c.addComp(l, n, srt, calleeBaseToArg(w, fn, cc))
				}
			}
			return
		}
	}
	if isPureCall(key) {
		return
	}
	l.ModAll = true
	l.Reasons = append(l.Reasons, "call "+key)
}

// specEffects translates a contract's modifies clause into components (bases unknown => no frame refinement).
func (c *Ctx) specEffects(sp *FuncSpec, fn *ssa.Function, cc *ssa.CallCommon, l *Loop) {
	for _, m := range sp.Modifies {
		m = strings.TrimSpace(m)
		if c.ghostNames()[m] {
			if l.ModGhosts == nil {
				l.ModGhosts = map[string]bool{}
			}
			l.ModGhosts[m] = true
			continue
		}
		if m == "heap" {
			l.ModAll = true
			l.Reasons = append(l.Reasons, "modifies heap of "+sp.Name)
			continue
		}
		if strings.HasPrefix(m, "every ") {
			env := &SpecEnv{C: c, Vars: map[string]TV{}}
			if pkg := c.findPackage(sp.Pkg, nil); pkg != nil {
				env.Pkg = pkg
			}
			cn, cs, err := c.everyComp(env, m)
			if err != nil {
				l.ModAll = true
				l.Reasons = append(l.Reasons, "modifies "+m+" of "+sp.Name+" (unresolved)")
				continue
			}
			l.ModComps[cn] = cs
			continue
		}
		// resolve the static type of the base expression from the callee's signature
		comps := c.modifiesComps(sp, fn, cc, m)
		if comps == nil {
			l.ModAll = true
			l.Reasons = append(l.Reasons, "modifies "+m+" of "+sp.Name+" (unresolved)")
			continue
		}
		for _, nc := range comps {
			l.ModComps[nc[0]] = nc[1]
		}
		l.SpecWrites = append(l.SpecWrites, specWrite{sp, fn, cc, m, comps})
	}
}

// modifiesComps statically types a modifies expression: IDENT(.field)*( .* | [*] )?
func (c *Ctx) modifiesComps(sp *FuncSpec, fn *ssa.Function, cc *ssa.CallCommon, m string) [][2]string {
	star := strings.HasSuffix(m, "[*]")
	m = strings.TrimSuffix(m, "[*]")
	all := strings.HasSuffix(m, ".*")
	m = strings.TrimSuffix(m, ".*")
	deref := strings.HasPrefix(m, "*")
	m = strings.TrimPrefix(m, "*")
	parts := strings.Split(m, ".")
	var t types.Type
	sig := cc.Signature()
	if cc.IsInvoke() {
		if parts[0] == "this" {
			// interface receiver: model fields only
			return [][2]string{}
		}
	}
	if fn != nil {
		sig = fn.Signature
	}
	if parts[0] == "this" && sig.Recv() != nil {
		t = sig.Recv().Type()
	} else if sig.Recv() != nil && sig.Recv().Name() == parts[0] {
		t = sig.Recv().Type()
	} else {
		for i := 0; i < sig.Params().Len(); i++ {
			if sig.Params().At(i).Name() == parts[0] {
				t = sig.Params().At(i).Type()
			}
		}
		if fn != nil {
			for _, p := range fn.Params {
				if p.Name() == parts[0] {
					t = p.Type()
				}
			}
		}
	}
	if t == nil {
		return nil
	}
	var out [][2]string
	for i, f := range parts[1:] {
		pt := t
		if p, ok := c.under(t).(*types.Pointer); ok {
			pt = p.Elem()
		}
		path := fieldPath(pt, f)
		if len(path) != 1 || c.structOf(pt) == nil {
			return nil
		}
		if i == len(parts)-2 && !star && !all {
			n, s, _ := c.fieldComp(pt, path[0])
			return append(out, [2]string{n, s})
		}
		t = c.structOf(pt).Field(path[0]).Type()
	}
	switch {
	case star:
		switch u := c.under(t).(type) {
		case *types.Slice:
			n, s := c.elemComp(u.Elem())
			return append(out, [2]string{n, s})
		case *types.Map:
			dn, vn, ln, ds, vs, ls := c.mapComps(u)
			return append(out, [2]string{dn, ds}, [2]string{vn, vs}, [2]string{ln, ls})
		}
	case all || deref:
		if p, ok := c.under(t).(*types.Pointer); ok {
			if st := c.structOf(p.Elem()); st != nil {
				for i := 0; i < st.NumFields(); i++ {
					n, s, _ := c.fieldComp(p.Elem(), i)
					out = append(out, [2]string{n, s})
				}
				return out
			}
			n, s := c.boxComp(p.Elem())
			return append(out, [2]string{n, s})
		}
	}
	return nil
}

// ---------------------------------------------------------------------------
// Loop cut
// ---------------------------------------------------------------------------

func (c *Ctx) loopSpec(l *Loop) *LoopSpec {
	if c.Spec == nil {
		return nil
	}
	return c.Spec.Loops[l.Ordinal]
}

// atLoopHead is called when control reaches a loop head of the function under verification.
// Returns true if the path ends here (back edge).
func (s *State) atLoopHead(l *Loop) bool {
	c := s.C
	fr := s.Frame
	ls := c.loopSpec(l)
	evalInv := func(cl *Clause) Term {
		env := c.funcEnv(s, fr, false)
		c.bindRangeIndex(env, s, fr, l)
		t, err := env.evalBool(cl.E)
		if err != nil {
			if strings.Contains(err.Error(), "unknown identifier") {
				// the code no longer has a local this clause talks about: the clause is dropped (not assumed, not
				// proved); whatever depended on it now fails as a named obligation instead of the whole check
				// becoming undecided
				c.noteOnce(fmt.Sprintf("loop %d invariant clause dropped (%v): %s", l.Ordinal, err, cl.Src))
				// ... and the dropped clause itself is a failed obligation: a statement of the contract that can no
				// longer be bound to the code must not disappear silently (a renamed or removed local needs the
				// contract to be rewritten)
				name := fmt.Sprintf("%s/inv-bind#L%d:%d", c.Key, l.Ordinal, cl.Line)
				if !c.warned[name] {
					c.warned[name] = true
					c.Obls = append(c.Obls, &Obligation{Name: name, Kind: "inv-bind", Func: c.Key, Desc: "the loop invariant clause can be bound to the code (" + err.Error() + "): " + cl.Src,
						Pos: fmt.Sprintf("%s:%d", cl.File, cl.Line), Path: nil, Goal: "false"})
				}
				return "true"
			}
			panic(evalErr(fmt.Sprintf("%s:%d: loop %d invariant: %v", cl.File, cl.Line, l.Ordinal, err)))
		}
		return t
	}
	unbound := func(cl *Clause) bool {
		env := c.funcEnv(s, fr, false)
		c.bindRangeIndex(env, s, fr, l)
		_, err := env.evalBool(cl.E)
		return err != nil && strings.Contains(err.Error(), "unknown identifier")
	}
	evalDec := func(cl *Clause) Term {
		env := c.funcEnv(s, fr, false)
		c.bindRangeIndex(env, s, fr, l)
		v, err := env.evalAny(cl.E)
		if err != nil {
			panic(evalErr(fmt.Sprintf("%s:%d: loop %d decreases: %v", cl.File, cl.Line, l.Ordinal, err)))
		}
		return v.T
	}
	pos := c.posOf(insPos(l.Head.Instrs[0]))
	if fr.Entered[l.Head] {
		// back edge
		s.runGhost(fr, fmt.Sprintf("loop %d end", l.Ordinal))
		if ls != nil {
			for i, inv := range ls.Invariants {
				if unbound(inv) {
					continue
				}
				env := c.funcEnv(s, fr, false)
				c.bindRangeIndex(env, s, fr, l)
				s.obligeExpr(fmt.Sprintf("inv-keep#L%d.%d", l.Ordinal, i+1), inv.Src, pos, env, inv.E, fmt.Sprintf("%s:%d: loop %d invariant", inv.File, inv.Line, l.Ordinal))
			}
			for n, lf := range fr.LoopFrames[l.Head] {
				cur := s.comp(n, lf.sort)
				if cur == lf.start {
					continue
				}
				r := c.fresh("lfr")
				c.declare(r, "Int")
				path := s.Path.push(fmt.Sprintf("(assert (and (< 0 %s) (<= %s %s)))", r, r, lf.wm))
				for _, a := range lf.refs {
					path = path.push(fmt.Sprintf("(assert (not (= %s %s)))", r, a))
				}
				c.addObl(s, &Obligation{Name: fmt.Sprintf("%s/loop-frame#L%d:%s", c.Key, l.Ordinal, n), Kind: "loop-frame", Func: c.Key,
					Desc: "an iteration writes " + n + " only where `loop modifies` says", Pos: pos, Path: path,
					Goal: fmt.Sprintf("(= (select %s %s) (select %s %s))", cur, r, lf.start, r), PathID: s.PathID})
			}
			if ls.Decreases != nil {
				v1 := evalDec(ls.Decreases)
				v0 := fr.LoopVariant[l.Head]
				s.oblige(fmt.Sprintf("dec#L%d", l.Ordinal), ls.Decreases.Src, pos, fmt.Sprintf("(and (>= %s 0) (< %s %s))", v0, v1, v0))
			}
		}
		return true
	}
	if ls == nil {
		if !c.warned[fmt.Sprint("noinv", l.Ordinal)] {
			c.warned[fmt.Sprint("noinv", l.Ordinal)] = true
			c.Notes = append(c.Notes, fmt.Sprintf("loop %d at %s has no invariant (treated as `true`)", l.Ordinal, pos))
		}
	}
	if ls != nil && ls.Abstract {
		c.assume(fmt.Sprintf("loop %d of %s is abstracted - its body is not explored, only cut and havocked; returns from inside the body are not checked (%s)", l.Ordinal, c.Key, ls.AbstractWhy))
	}
	s.runGhost(fr, fmt.Sprintf("loop %d entry", l.Ordinal))
	c.addObl(s, &Obligation{Name: fmt.Sprintf("%s/reach@loop%d", c.Key, l.Ordinal), Kind: "reach", Func: c.Key, Desc: "the loop is reachable on at least one path", Pos: pos, Path: s.Path, Goal: "false", ExpectSat: true, PathID: s.PathID})
	if ls != nil {
		for i, inv := range ls.Invariants {
			if unbound(inv) {
				continue
			}
			env := c.funcEnv(s, fr, false)
			c.bindRangeIndex(env, s, fr, l)
			s.obligeExpr(fmt.Sprintf("inv-init#L%d.%d", l.Ordinal, i+1), inv.Src, pos, env, inv.E, fmt.Sprintf("%s:%d: loop %d invariant", inv.File, inv.Line, l.Ordinal))
		}
	}
	// havoc
	pathBefore := s.Path
	c.analyseLoop(l)
	declared := map[string][]Term{}
	if ls != nil {
		for _, m := range ls.Modifies {
			if strings.TrimSpace(m) == "fresh" {
				// `loop K modifies fresh`: an iteration writes only objects allocated since the function was entered
				// (assumed at the head for every component the loop writes, re-checked at every back edge)
				declared["\x00fresh"] = nil
				continue
			}
			env := c.funcEnv(s, fr, false)
			ts, _ := s.modTargets(env, strings.TrimSpace(m))
			for _, t := range ts {
				if t.Ref == "" && !strings.HasPrefix(t.Comp, "G:") {
					continue
				}
				declared[t.Comp] = append(declared[t.Comp], t.Ref)
			}
		}
	}
	s.havocLoop(l, declared)
	fr.Entered[l.Head] = true
	s.runGhost(fr, fmt.Sprintf("loop %d head", l.Ordinal))
	if ls != nil {
		for _, inv := range ls.Invariants {
			s.assert(evalInv(inv))
			if ls.Abstract {
				c.assume(fmt.Sprintf("invariant of the abstracted loop %d of %s is assumed, not proved: %s", l.Ordinal, c.Key, inv.Src))
			}
		}
		if ls.Decreases != nil {
			fr.LoopVariant[l.Head] = s.name("variant", "Int", evalDec(ls.Decreases))
		}
		// the invariants (together with the havoc frame) must not be contradictory
		c.addObl(s, &Obligation{Name: fmt.Sprintf("%s/vac-loop#L%d", c.Key, l.Ordinal), Kind: "vac", Func: c.Key, Desc: "loop invariants satisfiable", Pos: pos, Path: s.Path, Before: pathBefore, Goal: "false", ExpectSat: true, PathID: s.PathID})
	}
	return false
}

// bindRangeIndex exposes the hidden index of a range loop as `rangeindex` (and `$k` = rangeindex+1).
func (c *Ctx) bindRangeIndex(env *SpecEnv, s *State, fr *Frame, l *Loop) {
	// sinceloop(x): allocated after this loop was entered
	if wm, ok := fr.LoopWM[l.Head]; ok {
		env.LoopWM = wm
	} else {
		env.LoopWM = s.WM
	}
	// range over a map: `visited` is the set of keys the iteration has produced so far
	for _, ins := range l.Head.Instrs {
		if nx, ok := ins.(*ssa.Next); ok && !nx.IsString {
			if rg, ok := nx.Iter.(*ssa.Range); ok {
				if cell, ok := c.rangeCells[rg]; ok {
					if t, ok := s.Cells[cell]; ok {
						if m, ok := c.under(rg.X.Type()).(*types.Map); ok {
							env.Vars["visited"] = specTV(t, "(Array "+c.sortOf(m.Key())+" Bool)")
						}
					}
				}
			}
		}
	}
	for _, ins := range l.Head.Instrs {
		if st, ok := ins.(*ssa.Store); ok {
			if a, ok := st.Addr.(*ssa.Alloc); ok && a.Comment == "rangeindex" {
				if v, ok := fr.Vals[a]; ok {
					if loc, ok := v.(*Loc); ok {
						t, _ := s.loadIn(s.Heap, s.Cells, loc)
						env.Vars["rangeindex"] = TV{T: t, Ty: tyInt, Sort: "Int"}
						// the slice being ranged over (an SSA temporary): `rangeexpr`
						for b := range l.Body {
							for _, i2 := range b.Instrs {
								if ia, ok := i2.(*ssa.IndexAddr); ok {
									if u, ok := ia.Index.(*ssa.UnOp); ok && u.X == a {
										if xv, ok := fr.Vals[ia.X]; ok {
											if xt, ok := xv.(string); ok {
												env.Vars["rangeexpr"] = c.mkTV(xt, ia.X.Type())
											}
										}
									}
								}
							}
						}
						return
					}
				}
			}
		}
	}
}

func (s *State) havocLoop(l *Loop, declared map[string][]Term) {
	c := s.C
	fr := s.Frame
	if l.ModAll {
		s.abstracted(fmt.Sprintf("loop %d writes through unmodelled code (%s): whole heap havocked", l.Ordinal, strings.Join(l.Reasons, ", ")))
		s.havocAllHeap("loop")
	}
	// cells
	var allocs []*ssa.Alloc
	for a := range l.ModCells {
		allocs = append(allocs, a)
	}
	sort.Slice(allocs, func(i, j int) bool { return allocs[i].Pos() < allocs[j].Pos() || allocs[i].Pos() == allocs[j].Pos() && allocs[i].Name() < allocs[j].Name() })
	wmEntry := s.WM
	fr.LoopWM[l.Head] = wmEntry
	// pre-compute frame information before cells are havocked
	type frameInfo struct {
		refs    []Term
		precise bool
	}
	frames := map[string]*frameInfo{}
	var compNames []string
	for n := range l.ModComps {
		compNames = append(compNames, n)
	}
	sort.Strings(compNames)
	for _, n := range compNames {
		fi := &frameInfo{precise: true}
		for _, w := range l.Writers[n] {
			ref, ok := s.invariantRef(w, l, n)
			if !ok {
				fi.precise = false
				break
			}
			if ref != "" {
				fi.refs = append(fi.refs, ref)
			}
		}
		frames[n] = fi
	}
	// writes made by called contracts: evaluate their modifies clauses on the loop-entry state when the
	// arguments are loop-invariant
	for _, sw := range l.SpecWrites {
		refs, ok := s.specWriteRefs(sw, l)
		for _, nc := range sw.comps {
			fi := frames[nc[0]]
			if fi == nil {
				fi = &frameInfo{precise: true}
				frames[nc[0]] = fi
			}
			if !ok {
				fi.precise = false
				continue
			}
			fi.refs = append(fi.refs, refs[nc[0]]...)
		}
	}
	var havockedCells [][2]interface{}
	for _, a := range allocs {
		v, ok := fr.Vals[a]
		if !ok {
			continue // allocated inside the loop
		}
		loc := v.(*Loc)
		if loc.Kind != LocLocal {
			continue
		}
		nv := s.freshConst("lv_"+loc.Cell.name, c.sortOf(loc.Cell.ty))
		for _, f := range c.wf(nv, loc.Cell.ty, 0) {
			s.assert(f)
		}
		havockedCells = append(havockedCells, [2]interface{}{nv, loc.Cell.ty})
		s.Cells[loc.Cell] = nv
		delete(s.CellLocs, loc.Cell)
	}
	// iterator cells of map ranges started before the loop
	for rg, cell := range c.rangeCells {
		if _, live := s.Cells[cell]; live && rg.Parent() == fr.Fn {
			used := false
			for b := range l.Body {
				for _, ins := range b.Instrs {
					if nx, ok := ins.(*ssa.Next); ok && nx.Iter == rg {
						used = true
					}
				}
			}
			if used {
				m := c.under(rg.X.Type()).(*types.Map)
				s.Cells[cell] = s.freshConst("visited", "(Array "+c.sortOf(m.Key())+" Bool)")
			}
		}
	}
	if !l.ModAll {
		nw := s.freshConst("WM", "Int")
		s.assert(fmt.Sprintf("(>= %s %s)", nw, wmEntry))
		s.WM = nw
		// references held in loop-modified locals were allocated before the current iteration starts
		for _, hc := range havockedCells {
			s.assumeAllocated(hc[0].(string), hc[1].(types.Type))
		}
		for _, n := range compNames {
			sortS := l.ModComps[n]
			oldT := s.comp(n, sortS)
			nv := s.freshConst("lh", sortS)
			fi := frames[n]
			if strings.HasPrefix(n, "G:") {
				s.Heap[n] = nv
				continue
			}
			frameWM := wmEntry
			_, freshOnly := declared["\x00fresh"]
			if refs, ok := declared[n]; ok || freshOnly {
				// user-declared loop frame: assumed here, re-checked at every back edge
				if !ok {
					frameWM = "WM!0"
				}
				fi = &frameInfo{precise: true, refs: refs}
				if fr.LoopFrames[l.Head] == nil {
					fr.LoopFrames[l.Head] = map[string]*loopFrame{}
				} else {
					cp := map[string]*loopFrame{}
					for k, v := range fr.LoopFrames[l.Head] {
						cp[k] = v
					}
					fr.LoopFrames[l.Head] = cp
				}
				fr.LoopFrames[l.Head][n] = &loopFrame{start: nv, refs: refs, wm: frameWM, sort: sortS}
			}
			if fi.precise {
				q := c.fresh("r")
				var ne []string
				for _, r := range fi.refs {
					ne = append(ne, fmt.Sprintf("(not (= %s %s))", q, r))
				}
				cond := fmt.Sprintf("(<= %s %s)", q, frameWM)
				if len(ne) > 0 {
					cond = "(and " + cond + " " + strings.Join(ne, " ") + ")"
				}
				s.assert(fmt.Sprintf("(forall ((%s Int)) (! (=> %s (= (select %s %s) (select %s %s))) :pattern ((select %s %s))))", q, cond, nv, q, oldT, q, nv, q))
			} else {
				c.Notes = append(c.Notes, fmt.Sprintf("loop %d: component %s havocked without frame (write base not loop-invariant)", l.Ordinal, n))
			}
			s.Heap[n] = nv
		}
	}
	// ghost variables: whatever the loop body (its `at` statements, the contracts it calls) may have done to
	// them is unknown at the start of an arbitrary iteration; the invariants carry what is needed
	touched, all := c.loopGhosts(l)
	var gnames []string
	for g := range s.Ghost {
		if all || touched[g] {
			gnames = append(gnames, g)
		}
	}
	sort.Strings(gnames)
	for _, g := range gnames {
		tv := s.Ghost[g]
		s.Ghost[g] = TV{T: s.freshConst("g_"+g, tv.Sort), Sort: tv.Sort, Ty: tv.Ty}
	}
}

// loopGhosts: the ghost variables an iteration of the loop may assign - through `at ... : set` statements anchored
// inside the loop (at the loop itself, at a nested loop, or at a call made in the body) or through the modifies clause
// of a contract called in the body. all=true: unknown code runs in the body.
func (c *Ctx) loopGhosts(l *Loop) (map[string]bool, bool) {
	out := map[string]bool{}
	if l.ModAll {
		// code without a contract runs in the body: it may build objects whose constructors update the global ghost
		// maps; ghost variables declared by the function under verification itself are out of its reach
		for _, g := range c.SS.GlobalGhosts {
			out[g.Name] = true
		}
	}
	for g := range l.ModGhosts {
		out[g] = true
	}
	if c.Spec == nil {
		return out, false
	}
	li := c.loopInfo(c.Fn)
	inBody := func(k int) bool {
		if k == l.Ordinal {
			return true
		}
		if li != nil {
			for _, l2 := range li.loops {
				if l2.Ordinal == k && l.Body[l2.Head] {
					return true
				}
			}
		}
		return false
	}
	callsInBody := map[string]bool{}
	hasPanic := false
	for b := range l.Body {
		for _, ins := range b.Instrs {
			if ci, ok := ins.(ssa.CallInstruction); ok {
				name := calleeName(ci.Common())
				if j := strings.Index(name, "::"); j >= 0 {
					name = name[j+2:]
				}
				callsInBody[name] = true
				if pn := paramNameOf(ci.Common().Value); pn != "" {
					callsInBody[pn] = true
				}
			}
			if _, ok := ins.(*ssa.Panic); ok {
				hasPanic = true
			}
		}
	}
	for _, g := range c.Spec.Ghost {
		if g.Kind != "set" {
			continue
		}
		a := g.Anchor
		switch {
		case strings.HasPrefix(a, "loop "):
			var k int
			fmt.Sscanf(a, "loop %d", &k)
			if strings.HasSuffix(a, " entry") && k == l.Ordinal {
				break // runs once, before the loop's head is reached for the first time
			}
			if inBody(k) {
				out[g.Var] = true
			}
		case strings.HasPrefix(a, "before ") || strings.HasPrefix(a, "after "):
			n := strings.TrimPrefix(strings.TrimPrefix(a, "before "), "after ")
			if j := strings.LastIndex(n, "#"); j >= 0 {
				n = n[:j]
			}
			if callsInBody[n] {
				out[g.Var] = true
			}
		case strings.HasPrefix(a, "panic#"):
			if hasPanic {
				out[g.Var] = true
			}
		}
	}
	return out, false
}

// invariantRef: the reference (object / backing-store base) written through w, if it is the same in every
// iteration or freshly allocated inside the loop. ok=false if unknown.
// Returns "" with ok=true for writes that only touch storage allocated inside the loop.
func (s *State) invariantRef(w ssa.Value, l *Loop, comp string) (Term, bool) {
	c := s.C
	fr := s.Frame
	if w == nil {
		return "", false
	}
	if w == freshMarker {
		return "", true
	}
	refOf := func(v Value, t types.Type) (Term, bool) {
		switch x := v.(type) {
		case *Loc:
			if len(x.Path) == 0 && (x.Kind == LocObj || x.Kind == LocBox || x.Kind == LocArr) {
				return x.Ref, true
			}
			if x.Kind == LocObj || x.Kind == LocBox || x.Kind == LocArr || x.Kind == LocElem {
				return x.Ref, true
			}
			return "", false
		case string:
			switch c.sortOf(t) {
			case "Slice":
				return fmt.Sprintf("(s.base %s)", x), true
			case "Int":
				return x, true
			}
		}
		return "", false
	}
	definedInLoop := func(v ssa.Value) bool {
		if ins, ok := v.(ssa.Instruction); ok {
			return l.Body[ins.Block()]
		}
		return false
	}
	switch v := w.(type) {
	case *ssa.Alloc:
		if definedInLoop(v) {
			return "", true
		}
		if x, ok := fr.Vals[v]; ok {
			return refOf(x, v.Type())
		}
		return "", false
	case *ssa.MakeSlice, *ssa.MakeMap, *ssa.Convert:
		if definedInLoop(v) {
			return "", true
		}
	}
	if !definedInLoop(w) {
		if x, ok := fr.Vals[w]; ok {
			return refOf(x, w.Type())
		}
		if p, ok := w.(*ssa.Parameter); ok {
			return refOf(fr.Vals[p], p.Type())
		}
		return "", false
	}
	// defined inside the loop: a load of a local cell?
	if u, ok := w.(*ssa.UnOp); ok {
		if a, ok := u.X.(*ssa.Alloc); ok && !a.Heap {
			x, ok := fr.Vals[a]
			if !ok {
				// the variable itself is per-iteration
				return "", false
			}
			loc := x.(*Loc)
			if loc.Kind != LocLocal {
				return "", false
			}
			cur := s.Cells[loc.Cell]
			if !l.ModCells[a] {
				return refOf(cur, a.Type().(*types.Pointer).Elem())
			}
			// modified in the loop: fine if every in-loop store to it is an append/reslice of itself or a fresh make
			if c.onlySelfAppends(a, l) {
				return refOf(cur, a.Type().(*types.Pointer).Elem())
			}
			return "", false
		}
		// load of a field of a loop-invariant object whose field is not written in the loop
		if fa, ok := u.X.(*ssa.FieldAddr); ok {
			pt := c.under(fa.X.Type()).(*types.Pointer).Elem()
			fn, _, _ := c.fieldComp(pt, fa.Field)
			if _, written := l.ModComps[fn]; !written {
				baseRef, ok := s.invariantRef(fa.X, l, comp)
				if ok && baseRef != "" {
					ft := c.structOf(pt).Field(fa.Field).Type()
					cn, cs, _ := c.fieldComp(pt, fa.Field)
					val := fmt.Sprintf("(select %s %s)", s.comp(cn, cs), baseRef)
					return refOf(val, ft)
				}
			}
		}
	}
	if sl, ok := w.(*ssa.Slice); ok {
		return s.invariantRef(sl.X, l, comp)
	}
	return "", false
}

// onlySelfAppends: every store to local a inside the loop stores append(a, ...), a[x:y] or a fresh make.
func (c *Ctx) onlySelfAppends(a *ssa.Alloc, l *Loop) bool {
	var isSelf func(v ssa.Value, d int) bool
	isSelf = func(v ssa.Value, d int) bool {
		if d > 6 {
			return false
		}
		switch v := v.(type) {
		case *ssa.UnOp:
			return v.X == a
		case *ssa.Slice:
			return isSelf(v.X, d+1)
		case *ssa.MakeSlice:
			return true
		case *ssa.Call:
			if b, ok := v.Call.Value.(*ssa.Builtin); ok && b.Name() == "append" {
				return isSelf(v.Call.Args[0], d+1)
			}
		case *ssa.Const:
			return v.Value == nil
		}
		return false
	}
	for b := range l.Body {
		for _, ins := range b.Instrs {
			if st, ok := ins.(*ssa.Store); ok && st.Addr == a {
				if !isSelf(st.Val, 0) {
					return false
				}
			}
		}
	}
	return true
}

// calleeBaseToArg maps a write base inside an inlined callee (a parameter, or a load of the local that holds a
// parameter) to the corresponding argument value at the call site; nil if it is anything else.
func calleeBaseToArg(w ssa.Value, fn *ssa.Function, cc *ssa.CallCommon) ssa.Value {
	if w == nil {
		return nil
	}
	if w == freshMarker {
		return w
	}
	argOf := func(p *ssa.Parameter) ssa.Value {
		for i, q := range fn.Params {
			if q == p {
				if cc.IsInvoke() {
					return nil
				}
				if i < len(cc.Args) {
					return cc.Args[i]
				}
			}
		}
		return nil
	}
	switch v := w.(type) {
	case *ssa.Parameter:
		return argOf(v)
	case *ssa.UnOp:
		if a, ok := v.X.(*ssa.Alloc); ok && !a.Heap {
			// the local must be assigned exactly once, from a parameter
			var src *ssa.Parameter
			n := 0
			for _, b := range fn.Blocks {
				for _, ins := range b.Instrs {
					if st, ok := ins.(*ssa.Store); ok && st.Addr == a {
						n++
						if p, ok := st.Val.(*ssa.Parameter); ok {
							src = p
						}
					}
				}
			}
			if n == 1 && src != nil {
				return argOf(src)
			}
		}
	case *ssa.Alloc, *ssa.MakeSlice, *ssa.MakeMap:
		// storage allocated inside the callee: fresh on every call
		return freshMarker
	}
	return nil
}

// freshMarker stands for "storage allocated during the loop iteration" in Loop.Writers.
var freshMarker ssa.Value = &ssa.Alloc{}

// specWriteRefs evaluates a callee's modifies entry at the loop-entry state, with the callee's parameters bound to
// the (loop-invariant) argument values. ok=false if an argument is not loop-invariant or the entry cannot be
// evaluated.
func (s *State) specWriteRefs(sw specWrite, l *Loop) (refs map[string][]Term, ok bool) {
	c := s.C
	defer func() {
		if r := recover(); r != nil {
			refs, ok = nil, false
		}
	}()
	if sw.cc.IsInvoke() {
		return nil, false
	}
	sig := sw.cc.Signature()
	if sw.fn != nil {
		sig = sw.fn.Signature
	}
	env := &SpecEnv{S: s, C: c, Heap: s.Heap, Cells: s.Cells, Vars: map[string]TV{}, Pkg: c.pkgOf(c.Fn), Ghost: s.Ghost}
	if sw.fn != nil {
		env.Pkg = c.pkgOf(sw.fn)
	}
	// only the parameters mentioned by the entry have to be invariant
	mentioned := func(name string) bool {
		return name != "" && (strings.HasPrefix(strings.TrimPrefix(sw.m, "*"), name+".") || strings.TrimSuffix(strings.TrimSuffix(strings.TrimPrefix(sw.m, "*"), "[*]"), ".*") == name || strings.HasPrefix(sw.m, name+"["))
	}
	bind := func(name string, arg ssa.Value, t types.Type) bool {
		if !mentioned(name) {
			return true
		}
		ref, ok := s.invariantRef(arg, l, "")
		if !ok || ref == "" {
			return false
		}
		switch c.sortOf(t) {
		case "Int":
			env.Vars[name] = TV{T: ref, Ty: t, Sort: "Int"}
			return true
		}
		return false
	}
	i := 0
	if sig.Recv() != nil {
		names := []string{"this", sig.Recv().Name()}
		if sw.fn != nil && len(sw.fn.Params) > 0 {
			names = append(names, sw.fn.Params[0].Name())
		}
		for _, n := range names {
			if !bind(n, sw.cc.Args[0], sig.Recv().Type()) {
				return nil, false
			}
		}
		i = 1
	}
	for j := 0; j < sig.Params().Len(); j++ {
		n := sig.Params().At(j).Name()
		if sw.fn != nil && i+j < len(sw.fn.Params) {
			n = sw.fn.Params[i+j].Name()
		}
		if !bind(n, sw.cc.Args[i+j], sig.Params().At(j).Type()) {
			return nil, false
		}
	}
	ts, heap := s.modTargets(env, sw.m)
	if heap {
		return nil, false
	}
	refs = map[string][]Term{}
	for _, t := range ts {
		if t.Ref == "" {
			return nil, false
		}
		refs[t.Comp] = append(refs[t.Comp], t.Ref)
	}
	return refs, true
}

func (c *Ctx) noteOnce(n string) {
	if !c.warned[n] {
		c.warned[n] = true
		c.Notes = append(c.Notes, n)
	}
}
